"""C13 implementation runner (under /venv/bin/python, PYTHONPATH=$OUTRANK_REPO).

For every case (a row table + a list of compositions) and every composition, the module globals of
outrank.core_ranking are reset and the batches are pushed through the real
compute_coverage / compute_cardinalities / compute_value_counts in the order compute_batch_ranking
calls them (family "direct"), or through the real compute_batch_ranking itself with the Constant
heuristic and a serial fake pool (family "batch").  The per-batch coverage dicts are collected the
way estimate_importances_minibatches does (local_coverage_object[k].append(v)).

The final observables are computed by the REAL statements of task_ranking.outrank_task_conduct_ranking,
located by ast and executed on the objects above:
  * the `if args.include_cardinality_in_feature_names == 'True':` block (the "-(card; cov)" annotation);
  * the statement that writes value_repetitions.json (the `with open(...)` block, or a helper call) (the histogram);
and by the real core_utils.summarize_rare_counts (rare_values.tsv).  If the blocks cannot be located the
runner reports extract_error and the check fails closed.
"""
import ast
import csv
import json
import logging
import os
import shutil
import sys
import types
from collections import defaultdict

payload = json.load(sys.stdin)
logging.disable(logging.CRITICAL)

import numpy as np  # noqa: E402
import pandas as pd  # noqa: E402

import outrank.core_ranking as cr  # noqa: E402
import outrank.core_utils as cu  # noqa: E402

logging.disable(logging.CRITICAL)
OUT = payload["outdir"]
os.makedirs(OUT, exist_ok=True)


class PBar:
    def set_description(self, *a, **k):
        pass

    def update(self, *a, **k):
        pass


class _Res:
    def __init__(self, v):
        self.v = v

    def ready(self):
        return True

    def get(self):
        return self.v


class FakePool:
    def __enter__(self):
        return self

    def __exit__(self, *a):
        return False

    def amap(self, f, xs):
        return _Res([f(x) for x in xs])


class Log:
    def info(self, *a, **k):
        pass

    debug = warning = error = info


# ---------------------------------------------------------------------------------------------
# locate the annotation and histogram statements of task_ranking.py

def extract_blocks():
    import outrank.task_ranking as tr_mod
    path = tr_mod.__file__
    tree = ast.parse(open(path, encoding="utf8").read())
    fn = None
    for node in ast.walk(tree):
        if isinstance(node, ast.FunctionDef) and node.name == "outrank_task_conduct_ranking":
            fn = node
    if fn is None:
        raise RuntimeError("outrank_task_conduct_ranking not found in %s" % path)
    ann = None
    hist = None

    def visit(body):
        nonlocal ann, hist
        for i, st in enumerate(body):
            if isinstance(st, ast.If) and "include_cardinality_in_feature_names" in ast.unparse(st.test) and ann is None:
                pre = []
                k = i - 1
                while k >= 0 and isinstance(body[k], ast.Assign) and isinstance(body[k].value, ast.List) and not body[k].value.elts:
                    pre.insert(0, body[k])
                    k -= 1
                ann = pre + [st]
            elif isinstance(st, ast.With) and "value_repetitions.json" in ast.unparse(st.items[0].context_expr) and hist is None:
                hist = [st]
            elif isinstance(st, (ast.Expr, ast.Assign)) and "value_repetitions.json" in ast.unparse(st) and hist is None:
                hist = [st]       # e.g. a helper call that dumps the dictionary
            for fld in ("body", "orelse", "finalbody"):
                sub = getattr(st, fld, None)
                if isinstance(sub, list) and sub and isinstance(sub[0], ast.stmt):
                    visit(sub)
    visit(fn.body)
    if ann is None:
        raise RuntimeError("annotation block (include_cardinality_in_feature_names) not found")
    if hist is None:
        raise RuntimeError("value_repetitions.json block not found")
    ns = dict(vars(tr_mod))

    def comp(stmts, name):
        m = ast.Module(body=stmts, type_ignores=[])
        ast.fix_missing_locations(m)
        return compile(m, "<task_ranking:%s>" % name, "exec")
    return comp(ann, "annotation"), comp(hist, "value_repetitions"), ns


try:
    ANN_CODE, HIST_CODE, TR_NS = extract_blocks()
    EXTRACT_ERROR = None
except Exception as e:  # fail closed in the harness
    ANN_CODE = HIST_CODE = TR_NS = None
    EXTRACT_ERROR = "%s: %s" % (type(e).__name__, e)


def source_constants():
    """The constants the property names, read from the SOURCE (ast), not from a run:
       * the bucket levels of value_repetitions.json: an int sequence literal / comprehension inside the statement that writes
         the file, or a module-level constant used by a module-level helper that statement calls;
       * p, m, warmup_size, width of HyperLogLogWCache: the `self.<attr> = <expr>` assignments of __init__, evaluated in order."""
    out = {"edges": None, "edges_note": None, "sketch": None, "sketch_note": None}
    try:
        import outrank.task_ranking as tr_mod
        tree = ast.parse(open(tr_mod.__file__, encoding="utf8").read())

        def as_levels(node):
            names = {n.id for n in ast.walk(node) if isinstance(n, ast.Name)}
            if not names <= {"range", "x", "i", "k", "level", "e", "exp", "power"}:
                return None
            try:
                val = eval(compile(ast.Expression(node), "<levels>", "eval"), {"range": range, "__builtins__": {}})
            except Exception:
                return None
            if isinstance(val, (list, tuple)) and len(val) >= 3 and all(isinstance(x, int) and not isinstance(x, bool) for x in val) \
                    and list(val) == sorted(set(val)) and val[0] == 0:
                return list(val)
            return None

        def levels_in(nodes):
            best = None
            for top in nodes:
                for node in ast.walk(top):
                    if isinstance(node, (ast.BinOp, ast.List, ast.Tuple, ast.ListComp)):
                        v = as_levels(node)
                        if v is not None and (best is None or len(v) > len(best)):
                            best = v
            return best
        hist_stmt = None
        for node in ast.walk(tree):
            if isinstance(node, (ast.With, ast.Expr, ast.Assign)) and "value_repetitions.json" in ast.unparse(node):
                hist_stmt = node
                break
        if hist_stmt is None:
            out["edges_note"] = "statement writing value_repetitions.json not found"
        else:
            lv = levels_in([hist_stmt])
            if lv is None:
                called = {n.func.id for n in ast.walk(hist_stmt) if isinstance(n, ast.Call) and isinstance(n.func, ast.Name)}
                funcs = [f for f in tree.body if isinstance(f, ast.FunctionDef) and f.name in called]
                lv = levels_in(funcs)
                if lv is None:
                    used = {n.id for f in funcs for n in ast.walk(f) if isinstance(n, ast.Name)}
                    consts = [a.value for a in tree.body if isinstance(a, ast.Assign)
                              and any(isinstance(tg, ast.Name) and tg.id in used for tg in a.targets)]
                    lv = levels_in(consts)
            out["edges"] = lv
            if lv is None:
                out["edges_note"] = "no integer level sequence found in / behind the statement writing value_repetitions.json"
    except Exception as e:
        out["edges_note"] = "%s: %s" % (type(e).__name__, e)
    try:
        import outrank.algorithms.sketches.counting_ultiloglog as hll_mod
        tree = ast.parse(open(hll_mod.__file__, encoding="utf8").read())
        init = None
        for node in ast.walk(tree):
            if isinstance(node, ast.ClassDef) and node.name == "HyperLogLogWCache":
                for f in node.body:
                    if isinstance(f, ast.FunctionDef) and f.name == "__init__":
                        init = f
        if init is None:
            out["sketch_note"] = "HyperLogLogWCache.__init__ not found"
        else:
            slf = types.SimpleNamespace()
            ns = {"self": slf, "np": np, "int": int, "set": set}
            for st in init.body:
                if isinstance(st, ast.Assign) and all(isinstance(tg, ast.Attribute) and isinstance(tg.value, ast.Name)
                                                      and tg.value.id == "self" for tg in st.targets):
                    try:
                        exec(compile(ast.Module(body=[st], type_ignores=[]), "<hll-init>", "exec"), ns)
                    except Exception:
                        pass
            got = {k: getattr(slf, k, None) for k in ("p", "m", "warmup_size", "width")}
            if all(isinstance(v, int) for v in got.values()):
                out["sketch"] = got
            else:
                out["sketch_note"] = "could not evaluate p/m/warmup_size/width from __init__: %r" % (got,)
    except Exception as e:
        out["sketch_note"] = "%s: %s" % (type(e).__name__, e)
    try:
        inst = cr.HyperLogLog(cr.HYPERLL_ERROR_BOUND)
        out["sketch_instance"] = {k: int(getattr(inst, k)) for k in ("p", "m", "warmup_size", "width")}
    except Exception as e:
        out["sketch_instance"] = None
    return out


def enc(v):
    """a dictionary key / cell as JSON: str -> ["s", v], float nan -> ["nan"], None -> ["none"], number -> ["num", str, truth],
    anything else -> ["other", repr]"""
    if isinstance(v, str):
        return ["s", v]
    if v is None:
        return ["none"]
    if isinstance(v, (float, np.floating)) and v != v:
        return ["nan"]
    if isinstance(v, (bool, np.bool_)):
        return ["other", repr(v)]
    if isinstance(v, (int, float, np.integer, np.floating)):
        return ["num", str(v), bool(v)]         # a numeric cell: its str() and its truth value
    return ["other", repr(v)]


def reset_globals():
    cr.GLOBAL_CARDINALITY_STORAGE.clear()
    cr.GLOBAL_COUNTS_STORAGE.clear()
    cr.GLOBAL_RARE_VALUE_STORAGE.clear()
    cr.GLOBAL_PRIOR_COMB_COUNTS.clear()
    cr.IGNORED_VALUES.clear()


def make_args(case):
    return types.SimpleNamespace(
        missing_value_symbols=case["syms"],
        rare_value_count_upper_bound=case["thr"],
        max_unique_hist_constraint=case["bound"],
        include_cardinality_in_feature_names="True",
        output_folder=OUT,
        # only read by compute_batch_ranking / mixed_rank_graph (family "batch")
        task="identify_rare_values", heuristic="Constant", feature_set_focus=None,
        transformers=case.get("transformers") or "none",
        explode_multivalue_features="False", subfeature_mapping="False", interaction_order=int(case.get("interaction_order") or 1),
        reference_model_JSON="", include_noise_baseline_features="False", target_ranking_only="True",
        label_column=case["cols"][-1],
        combination_number_upper_bound=(10 ** 4 if int(case.get("interaction_order") or 1) > 1 else 8), disable_tqdm="True",
    )


def small_sketch_probe():
    """The small-sketch device sets p/m/width/warmup_size on a fresh instance.  A rewrite of the sketch that derives further
    state from them in __init__ makes such an instance inconsistent although the real (default-size) sketch is fine; the probe
    tells the two apart: None = device usable, else the error it met."""
    try:
        h = cr.HyperLogLog(cr.HYPERLL_ERROR_BOUND)
        h.warmup_size = 2
        h.p = 4
        h.m = 1 << h.p
        h.width = 64 - h.p
        for i in range(40):
            h.add("%032x" % (i * 2654435761))
            if i < 2 and len(h) != i + 1:
                return "len %d after %d distinct values while warm" % (len(h), i + 1)
        n = len(h)
        if not 0 <= n <= 16 * 40:
            return "len %d out of range for 16 registers" % n
        return None
    except Exception as e:
        return "%s: %s" % (type(e).__name__, e)


SMALL_SKETCH_ERROR = small_sketch_probe()


def run_history(case, sizes):
    fcols = case["cols"]                                   # the columns of the parsed rows
    cols = list(fcols) + list(case.get("icols") or [])     # + the constructed interaction columns that are judged as well
    numeric = set(case.get("numeric") or [])               # numeric_column_types of the data source
    rows = case["rows"]
    args = make_args(case)
    reset_globals()
    if case.get("smallcap") is not None and SMALL_SKETCH_ERROR is None:
        # pre-created sketches with a small warm-up capacity: C13's claim (exact while warm) is unchanged
        for c in cols:
            h = cr.HyperLogLog(cr.HYPERLL_ERROR_BOUND)
            h.warmup_size = int(case["smallcap"])
            if case.get("sketch_p") is not None:
                # a small register file as well (as C14's harness does), so that the converted phase is cheap and sensitive
                h.p = int(case["sketch_p"])
                h.m = 1 << h.p
                h.width = 64 - h.p
            cr.GLOBAL_CARDINALITY_STORAGE[c] = h
    local_coverage_object = defaultdict(list)
    pos = 0
    pbar = PBar()
    pipeline_objs = None
    if case.get("via") == "pipeline":
        # the real streaming loop over a csv file: full batches of args.minibatch_size rows
        if len(set(sizes)) != 1 or sum(sizes) != len(rows):
            raise RuntimeError("pipeline family needs a uniform composition")
        path = os.path.join(OUT, "data.csv")
        if case.get("source") != "ob-vw":
            with open(path, "w", encoding="utf8", newline="") as f:
                f.write(",".join(fcols) + "\n")
                for r in rows:
                    f.write(",".join(r) + "\n")
        args.minibatch_size = sizes[0]
        args.subsampling = 1
        fw = {}
        delim = ","
        if case.get("source") == "ob-vw":
            # vw lines: label first, a namespace token "|n<j> xx<value>" per present cell (the parser drops the first two
            # characters of the value part); an absent namespace is parsed as None
            args.data_source = "ob-vw"
            fw = {"n%d" % j: fcols[j] for j in range(1, len(fcols))}
            delim = "\t"
            with open(path, "w", encoding="utf8", newline="") as f:
                f.write("header\n")
                for r in rows:
                    f.write(r[0] + " " + " ".join("|n%d xx%s" % (j, r[j]) for j in range(1, len(fcols)) if r[j] is not None) + "\n")
        else:
            args.data_source = "csv-raw"
        ret = cr.estimate_importances_minibatches(
            input_file=path, column_descriptions=list(fcols), fw_col_mapping=fw, numeric_column_types=set(numeric),
            batch_size=sizes[0], args=args, data_encoding="utf-8", cpu_pool=FakePool(), delimiter=delim, logger=Log())
        pipeline_objs = (ret[2], ret[5], ret[6], ret[8])
        sizes = []
    for n in sizes:
        chunk = [list(r) for r in rows[pos:pos + n]]
        pos += n
        if case.get("via") == "batch":
            _, _, coverage_storage, _ = cr.compute_batch_ranking(chunk, set(numeric), args, FakePool(), list(fcols), Log(), pbar)
        else:
            df = pd.DataFrame(chunk, columns=fcols)
            coverage_storage = cr.compute_coverage(df, args)
            cr.compute_cardinalities(df, pbar, args.max_unique_hist_constraint)
            cr.compute_value_counts(df, args)
        for k, v in coverage_storage.items():          # estimate_importances_minibatches
            local_coverage_object[k].append(v)
    cardinality_object = cr.GLOBAL_CARDINALITY_STORAGE.copy()
    rare_storage = cr.GLOBAL_RARE_VALUE_STORAGE.copy()
    item_counts = cr.GLOBAL_COUNTS_STORAGE.copy()
    if pipeline_objs is not None:      # the objects estimate_importances_minibatches returned
        cardinality_object, local_coverage_object, rare_storage, item_counts = pipeline_objs

    out = {}
    global EXTRACT_ERROR
    # --- annotation: the real statements of task_ranking (fallback: the same three expressions, replicated)
    names = None
    if ANN_CODE is not None:
        triplets = pd.DataFrame({"FeatureA": list(cols), "FeatureB": list(reversed(cols)), "Score": [0.0] * len(cols)})
        ns = dict(TR_NS)
        ns.update(args=args, triplets=triplets, cardinality_object=cardinality_object, coverage_object=local_coverage_object,
                  feature_first_modified=[], feature_second_modified=[])
        try:
            exec(ANN_CODE, ns)
            names = list(ns["triplets"]["FeatureA"])
        except NameError as e:       # the statements no longer fit the harness' environment: observation point lost
            EXTRACT_ERROR = EXTRACT_ERROR or "annotation statements: %s" % e
    if names is None:
        names = [c + "-(%s; %s)" % (str(len(cardinality_object[c])), int(round(np.mean(np.array(local_coverage_object[c])), 1)))
                 for c in cols]
    ann = []
    for c, nm in zip(cols, names):
        if not (isinstance(nm, str) and nm.startswith(c + "-(") and nm.endswith(")")):
            raise RuntimeError("unexpected annotated name %r for %r" % (nm, c))
        inner = nm[len(c) + 2:-1]
        card_s, cov_s = inner.split("; ")
        ann.append([int(card_s), int(cov_s)])
    out["annotation"] = ann
    out["names"] = names
    # --- histogram: the real statements of task_ranking (fallback: replicated)
    done = False
    if HIST_CODE is not None:
        ns = dict(TR_NS)
        ns.update(args=args, GLOBAL_ITEM_COUNTS=item_counts)
        try:
            exec(HIST_CODE, ns)
            with open(os.path.join(OUT, "value_repetitions.json")) as f:
                out["hist"] = json.load(f)
            done = True
        except NameError as e:
            EXTRACT_ERROR = EXTRACT_ERROR or "value_repetitions statements: %s" % e
    if not done:
        out["hist"] = {}
        for k, v in item_counts.items():
            ary = np.array(list(v.default_counter.values()))
            out["hist"][k] = {str(x): int(len(np.where(ary > x)[0])) for x in [0] + [10 ** i for i in range(6)]}
    # --- rare values: storage and the real writer
    # (features constructed on the way — transformed numeric columns, interactions not judged — are left out)
    out["rare"] = [[k[0], enc(k[1]), int(v)] for k, v in rare_storage.items() if k[0] in cols]
    out["rare_other_features"] = sum(1 for k in rare_storage if k[0] not in cols)
    out["rare_file"] = None
    out["rare_writer_error"] = None
    if len(rare_storage) > 0:
        p = os.path.join(OUT, "rare_values.tsv")
        if os.path.exists(p):
            os.remove(p)
        try:
            cu.summarize_rare_counts(rare_storage, args, cardinality_object, types.SimpleNamespace(column_types=set()))
        except Exception as e:
            out["rare_writer_error"] = "%s: %s" % (type(e).__name__, e)
        if os.path.exists(p):
            with open(p, newline="", encoding="utf8") as f:
                rd = list(csv.reader(f, delimiter="\t"))
            out["rare_file"] = {"header": rd[0] if rd else None, "rows": [x for x in rd[1:] if x and x[0] in cols]}
    # --- raw state
    out["coverage"] = {c: [float(x) for x in local_coverage_object[c]] for c in cols}
    out["sketch"] = {c: {"len": int(len(cardinality_object[c])), "cold": bool(getattr(cardinality_object[c], "hll_flag", False)),
                         "warmup_size": int(getattr(cardinality_object[c], "warmup_size", 2 ** 18)),
                         "p": int(getattr(cardinality_object[c], "p", 19)),
                         "width": int(getattr(cardinality_object[c], "width", 45))} for c in cols}
    try:
        out["counter"] = {c: [[enc(k), int(v)] for k, v in item_counts[c].default_counter.items()] for c in cols}
    except Exception:
        out["counter"] = {c: None for c in cols}
    out["ignored"] = sorted([[k[0], enc(k[1])] for k in cr.IGNORED_VALUES], key=repr)
    return out


def run_scale(sc):
    """Scale case (thorough tier; no Coq): n distinct id-like values in one column, value i occurring once (i even) or three
    times (i odd), seeded shuffle, cut into equal batches, through the real compute_value_counts; compared here with an exact
    recount by collections.Counter: the report must be exactly the values whose total is <= thr."""
    import random as _random
    from collections import Counter as _Counter
    n, nb, thr = int(sc["n_distinct"]), int(sc["nbatches"]), int(sc["thr"])
    vals = []
    for i in range(n):
        vals += ["u%d" % i] * (1 if i % 2 == 0 else 3)
    if sc.get("layout") == "frequent-first":
        # every frequent value is retired before the first rare value arrives
        fr = [v for i in range(n) if i % 2 for v in ["u%d" % i] * 3]
        ra = ["u%d" % i for i in range(n) if i % 2 == 0]
        _random.Random(sc["seed"]).shuffle(fr)
        _random.Random(sc["seed"]).shuffle(ra)
        vals = fr + ra
    else:
        _random.Random(sc["seed"]).shuffle(vals)
    reset_globals()
    args = types.SimpleNamespace(rare_value_count_upper_bound=thr)
    size = (len(vals) + nb - 1) // nb
    for b in range(nb):
        chunk = vals[b * size:(b + 1) * size]
        if chunk:
            cr.compute_value_counts(pd.DataFrame([[v] for v in chunk], columns=["id"]), args)
    rep_ = {k: int(v) for k, v in cr.GLOBAL_RARE_VALUE_STORAGE.items()}
    exact = {("id", v): c for v, c in _Counter(vals).items() if c <= thr}
    missing = sorted(k[1] for k in exact if k not in rep_)
    spurious = sorted(str(k[1]) for k in rep_ if k not in exact)
    wrong = sorted(k[1] for k in exact if k in rep_ and rep_[k] != exact[k])
    reset_globals()
    return {"rows": len(vals), "report": len(rep_), "exact": len(exact), "missing": missing[:10], "n_missing": len(missing),
            "spurious": spurious[:10], "n_spurious": len(spurious), "wrong_count": wrong[:10], "n_wrong": len(wrong)}


results = []
if True:
    for case in payload["cases"]:
        vals = sorted({str(v) for r in case["rows"] for v in r if v is not None and str(v) != ""} | {"nan", "None"})
        try:
            ih = getattr(cr, 'internal_hash', None) or cu.internal_hash
            digests = [ih(str(v)) for v in vals]
            hashes = [[v, int(d, 16)] for v, d in zip(vals, digests)]
            # the sketch's own hash of a digest: xxh32(seed = p) of its utf-8 bytes (HyperLogLogWCache._hasher_update)
            import xxhash as _xx
            sp = int((case.get("sketch_p") if SMALL_SKETCH_ERROR is None else None) or 19)
            h2 = [[int(d, 16), _xx.xxh32(d.encode("utf-8"), seed=sp).intdigest()] for d in digests]
            # interaction cells: xxh64 of the length-prefixed value tuple (compute_combined_features); the sketch sees its digest
            xx64 = []
            for s in case.get("istrings") or []:
                hx = _xx.xxh64(s.encode("utf-8")).hexdigest()
                d = ih(hx)
                xx64.append([s, hx])
                hashes.append([s, int(d, 16)])
                h2.append([int(d, 16), _xx.xxh32(d.encode("utf-8"), seed=sp).intdigest()])
            herr = None
        except Exception as e:
            hashes = []
            h2 = []
            xx64 = []
            herr = "%s: %s" % (type(e).__name__, e)
        hs = []
        for sizes in case["splits"]:
            try:
                o = run_history(case, sizes)
                o["ok"] = True
            except Exception as e:  # a recorded outcome, decided by the harness
                import traceback
                o = {"ok": False, "error": "%s: %s" % (type(e).__name__, e), "trace": traceback.format_exc()[-1500:]}
            hs.append(o)
        results.append({"hashes": hashes, "h2": h2, "xx64": xx64, "hash_error": herr, "histories": hs})
scale_results = []
for sc in payload.get("scale", []):
    try:
        scale_results.append(dict(run_scale(sc), ok=True))
    except Exception as e:
        scale_results.append({"ok": False, "error": "%s: %s" % (type(e).__name__, e)})
reset_globals()
shutil.rmtree(OUT, ignore_errors=True)
print("@@RESULT " + json.dumps({"small_sketch_error": SMALL_SKETCH_ERROR, "extract_error": EXTRACT_ERROR, "results": results, "scale": scale_results,
                                "constants": source_constants()}))
