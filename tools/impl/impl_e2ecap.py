"""E2Ecap: runs the REAL ranking task end to end (in-process `outrank_task_conduct_ranking`, args from the repository's own
parser) on a csv-raw file text with a (possibly BINDING) --combination_number_upper_bound and reports
  * the whole pairwise_ranks.tsv,
  * combination_estimation_counts.json (keys are str(tuple) of the candidate),
  * per batch: the number of rows and the pairs of the triplets mixed_rank_graph returned (recording wrapper around
    core_ranking.compute_batch_ranking, as impl_e2e.py with detail=True; with "detail" also rows / columns / scores).

Runs under /venv/bin/python with PYTHONPATH=$OUTRANK_REPO.  Reads {"cases": [...], "root": dir, "detail": bool} on stdin and
prints one line `@@RESULT <json>`.  Reused by import from impl_c08_lib (not edited): build_args, SerialPool, CapLogger,
read_table, reset_globals (clears GLOBAL_PRIOR_COMB_COUNTS and re-seeds `random` as at import), clean.
A case: {"text": <every code point < 256; written as latin1 bytes>, "B", "s", "label", "tro", "heuristic", "cap"}."""
import json
import os
import shutil
import sys
import traceback

payload = json.load(sys.stdin)
sys.path.insert(0, os.path.dirname(os.path.abspath(__file__)))
import impl_c08_lib as L  # noqa: E402

cr, tr = L.cr, L.tr
CKPT = "ranking_checkpoint_tmp.tsv"


def run_case(case, cdir, detail):
    shutil.rmtree(cdir, ignore_errors=True)
    os.makedirs(os.path.join(cdir, "in"))
    with open(os.path.join(cdir, "in", "data.csv"), "wb") as f:
        f.write(case["text"].encode("latin1"))
    out_dir = os.path.join(cdir, "out")
    os.chdir(cdir)
    L.reset_globals()
    argv = ["--task", "ranking", "--data_path", os.path.join(cdir, "in"), "--data_source", "csv-raw",
            "--output_folder", out_dir, "--minibatch_size", str(case["B"]), "--subsampling", str(case["s"]),
            "--heuristic", case["heuristic"], "--target_ranking_only", case["tro"],
            "--label_column", case["label"], "--include_cardinality_in_feature_names", "False",
            "--disable_tqdm", "True", "--num_threads", "1", "--interaction_order", "1",
            "--combination_number_upper_bound", str(case["cap"]),
            "--include_noise_baseline_features", "False"]
    args, args_src = L.build_args(argv)
    obs = {"args_source": args_src, "ok": True, "batches": [], "nbatches": 0}
    pool = L.SerialPool(1)
    caplog = L.CapLogger()
    real_cbr = getattr(cr, "compute_batch_ranking", None)
    real_eim = cr.estimate_importances_minibatches

    def cbr_wrapper(line_tmp_storage, *a, **k):
        obs["nbatches"] += 1
        rec = {"n": len(line_tmp_storage)}
        if detail:
            rec["rows"] = [[(c if isinstance(c, str) else repr(c)) for c in r] for r in line_tmp_storage]
            cd = a[3] if len(a) > 3 else k.get("column_descriptions")
            rec["columns"] = list(cd) if cd is not None else None
        obs["batches"].append(rec)
        ret = real_cbr(line_tmp_storage, *a, **k)
        try:
            trip = list(ret[0].triplet_scores)
            rec["pairs"] = [[str(x), str(y)] for x, y, _ in trip]
            rec["scores"] = [float(z) for _, _, z in trip]
            if detail:
                rec["triplets"] = [[str(x), str(y), float(z)] for x, y, z in trip]
        except Exception as e:
            rec["pairs_error"] = "%s: %s" % (type(e).__name__, e)
        return ret

    def eim_wrapper(*a, **k):
        if "logger" in k:
            k["logger"] = caplog
        return real_eim(*a, **k)

    if real_cbr is not None:
        cr.compute_batch_ranking = cbr_wrapper
    else:
        obs["wrapper_missing"] = True
    tr.estimate_importances_minibatches = eim_wrapper
    real_pool_factory = getattr(tr, "Pool", None)
    tr.Pool = lambda n: pool
    try:
        try:
            tr.outrank_task_conduct_ranking(args)
            obs["exit"] = None
        except SystemExit as e:
            obs["exit"] = "SystemExit(%s)" % (e.code,)
    except BaseException as e:  # a recorded outcome; the harness decides
        obs["ok"] = False
        obs["error_type"] = type(e).__name__
        obs["error"] = "%s: %s" % (type(e).__name__, e)
        obs["error_filename"] = os.path.basename(str(getattr(e, "filename", "") or ""))
        tb = traceback.extract_tb(e.__traceback__)
        obs["error_where"] = "%s:%s" % (os.path.basename(tb[-1].filename), tb[-1].name) if tb else ""
        obs["traceback"] = traceback.format_exc()[-2500:]
    finally:
        if real_cbr is not None:
            cr.compute_batch_ranking = real_cbr
        tr.estimate_importances_minibatches = real_eim
        if real_pool_factory is not None:
            tr.Pool = real_pool_factory
    obs["invalid_logged"] = caplog.invalid_count()
    obs["pairwise"] = L.read_table(os.path.join(out_dir, "pairwise_ranks.tsv"))
    cpath = os.path.join(out_dir, "combination_estimation_counts.json")
    obs["counts"] = None
    if os.path.exists(cpath):
        try:
            with open(cpath) as f:
                d = json.load(f)
            obs["counts"] = [[str(k), v] for k, v in d.items()]
        except Exception as e:
            obs["counts_error"] = "%s: %s" % (type(e).__name__, e)
    # the in-memory counter, for the diagnosis only (keys as the file would print them)
    try:
        obs["counter_memory"] = [[str(k), int(v)] for k, v in cr.GLOBAL_PRIOR_COMB_COUNTS.items()]
    except Exception:
        obs["counter_memory"] = None
    os.chdir(os.path.dirname(cdir))
    shutil.rmtree(cdir, ignore_errors=True)
    return obs


root = payload["root"]
os.makedirs(root, exist_ok=True)
results = []
for i, case in enumerate(payload["cases"]):
    try:
        results.append(L.clean(run_case(case, os.path.join(root, "case_%d" % i), bool(payload.get("detail")))))
    except BaseException as e:
        results.append({"ok": False, "error": "harness: %s: %s" % (type(e).__name__, e), "error_type": "harness",
                        "traceback": traceback.format_exc()[-2500:], "batches": [], "nbatches": 0, "pairwise": None,
                        "counts": None})
        os.chdir(root)
L.reset_globals()
shutil.rmtree(root, ignore_errors=True)
print("@@RESULT " + json.dumps({"results": results}))
