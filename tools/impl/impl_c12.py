"""Runs the real FeatureTransformerGeneric on generated frames (under /venv/bin/python, PYTHONPATH=$OUTRANK_REPO).

stdin:  {"cases": [{"preset": str, "columns": [[name, [cell, ...]], ...], "extra": [[name, [cell, ...]], ...],
                    "dtypes": {name: numpy dtype name}}]}
        cells are JSON strings (as in the real pipeline) or JSON numbers (int / float columns, stored with the dtype
        given in "dtypes" - int64, int32, uint64, uint32, int16, float32 - or with pandas' default).
stdout: one line  @@RESULT {"results": [...]}  with, per case,
  ok / error          constructor or construct_new_features raised (a recorded outcome, judged by the harness)
  collection          [[transformer name, formula string], ...] = transformer_collection in insertion order
  vals                {column: [repr(float), ...]} = get_vals(frame, column)
  new                 [[new column name, [str(cell), ...]], ...] = columns appended by construct_new_features
  rendered            {column: [[str, ...] per transformer of `collection`]} = eval(formula).astype(str) on get_vals,
                      re-evaluated here exactly as construct_new_features does, because the implementation does not
                      expose the rendered values of the columns it drops (the harness checks that the appended
                      columns carry exactly these strings)
  constructed         sorted(constructed_feature_names)
"""
import json
import sys
import warnings

payload = json.load(sys.stdin)
warnings.simplefilter("ignore")
import logging  # noqa: E402

import numpy as np  # noqa: E402
import pandas as pd  # noqa: E402

import outrank.feature_transformations.ranking_transformers as rt  # noqa: E402

logging.disable(logging.CRITICAL)
np.seterr(all="ignore")

out = []
for case in payload["cases"]:
    res = {"ok": False}
    try:
        cols = [c for c, _ in case["columns"]]
        dtypes = case.get("dtypes", {})
        data = {c: (pd.Series(list(v), dtype=dtypes[c]) if c in dtypes else list(v)) for c, v in case["columns"]}
        for c, v in case.get("extra", []):
            data[c] = list(v)
        frame = pd.DataFrame(data)
        before = list(frame.columns)
        try:
            tr = rt.FeatureTransformerGeneric(cols, preset=case["preset"])
        except NotImplementedError as e:
            res = {"ok": False, "stage": "init", "error": "NotImplementedError: %s" % e}
            out.append(res)
            continue
        coll = [[k, v] for k, v in tr.transformer_collection.items()]
        res["collection"] = coll
        vals = {}
        rendered = {}
        for c in cols:
            X = tr.get_vals(frame, c)
            vals[c] = [repr(float(x)) for x in X.tolist()]
            rr = []
            for k, v in coll:
                try:
                    arr = eval(v, {"np": np, "X": X}).astype(str)
                    rr.append([str(s) for s in np.asarray(arr).tolist()] if np.ndim(arr) == 1 else
                              {"error": "result of %r is not a column" % v})
                except Exception as e:
                    rr.append({"error": "%s: %s" % (type(e).__name__, e)})
            rendered[c] = rr
        res["vals"] = vals
        res["rendered"] = rendered
        new_frame = tr.construct_new_features(frame.copy())
        after = list(new_frame.columns)
        if after[:len(before)] != before:
            res["error"] = "original columns changed: %r" % (after[:len(before) + 2],)
            res["stage"] = "construct"
            out.append(res)
            continue
        res["rows_after"] = int(new_frame.shape[0])
        # positional access: an appended column may carry the name of an original one
        res["new"] = [[str(after[j]), [str(x) for x in new_frame.iloc[:, j].tolist()]] for j in range(len(before), len(after))]
        res["originals_intact"] = all(
            [str(x) for x in new_frame.iloc[:, j].tolist()] == [str(x) for x in frame.iloc[:, j].tolist()]
            for j in range(len(before)))
        res["constructed"] = sorted(str(x) for x in tr.constructed_feature_names)
        res["ok"] = True
    except Exception as e:  # recorded outcome, decided by the harness
        res["ok"] = False
        res.setdefault("stage", "construct")
        res["error"] = "%s: %s" % (type(e).__name__, e)
    out.append(res)
print("@@RESULT " + json.dumps({"results": out}))
