"""C19 driver: runs the real CategoricalClassification.generate_data, generator_naive.generate_random_matrix and
task_generators.outrank_task_generate_data_set (under /venv/bin/python, PYTHONPATH=$OUTRANK_REPO) while RECORDING
every call of np.random.seed / choice / randint / shuffle / permutation (module attributes of numpy.random, wrapped
for the duration of one case and restored afterwards).  Reads {"cases": [...]} on stdin, prints `@@RESULT <json>`.
Scratch files (data.csv of the generator task) only under /root/scratch/c19/."""
import json
import os
import shutil
import sys
import traceback
import types

payload = json.load(sys.stdin)

import numpy as np  # noqa: E402

NAMES = ["seed", "choice", "randint", "shuffle", "permutation"]
ORIG = {n: getattr(np.random, n) for n in NAMES}
TRACE = []


def _tolist(x):
    try:
        return np.asarray(x).tolist()
    except Exception:
        return repr(x)[:200]


def _desc(x):
    """short, JSON-able description of an argument (diagnostics only)"""
    if isinstance(x, range):
        return {"range": [x.start, x.stop, x.step]}
    if isinstance(x, (int, float, bool)) or x is None:
        return x
    if isinstance(x, (np.integer,)):
        return int(x)
    if isinstance(x, (tuple, list)) and len(x) <= 4:
        return [_desc(v) for v in x]
    a = np.asarray(x)
    if a.size <= 64 and a.dtype.kind in "iub":
        return a.tolist()
    return {"shape": list(a.shape), "dtype": str(a.dtype)}


def _wrap(name):
    f = ORIG[name]

    def w(*a, **k):
        if name == "shuffle":
            before = _tolist(a[0]) if a else None
            r = f(*a, **k)
            TRACE.append({"fn": name, "before": before, "ans": _tolist(a[0]) if a else None})
            return r
        r = f(*a, **k)
        ev = {"fn": name, "args": [_desc(x) for x in a],
              "kw": {kk: (_desc(v) if kk != "p" else "p") for kk, v in k.items()}}
        if name != "seed":
            ev["ans"] = _tolist(r)
            ev["ans_ndim"] = int(np.ndim(r))
        TRACE.append(ev)
        return r
    w.__name__ = name
    return w


class Recording:
    def __enter__(self):
        for n in NAMES:
            setattr(np.random, n, _wrap(n))
        del TRACE[:]
        return self

    def __exit__(self, *a):
        for n in NAMES:
            setattr(np.random, n, ORIG[n])
        return False


# ---------------------------------------------------------------- building the real arguments

def build_attr(at):
    kind = at["kind"]
    if kind == "card":
        return np.int64(at["c"]) if at.get("form") == "npint" else int(at["c"])
    vs = list(at["vs"])
    vals = np.array(vs, dtype=np.int64) if at.get("form") == "ndarray" else vs
    if kind == "vals":
        return vals
    w = at["ps"]
    pf = at.get("p_form", "int")
    if pf == "norm":
        tot = float(sum(w))
        ps = [x / tot for x in w]
    elif pf == "tenth":
        ps = [x / 10.0 for x in w]
    else:
        ps = list(w)
    if at.get("p_container") == "ndarray":
        ps = np.array(ps, dtype=float)
    return [vals, ps]


def build_structure(case):
    st = case["structure"]
    if st is None:
        return None
    if case.get("structure_form") == "ndarray2d":
        return np.array([[e["ix"], e["attr"]["c"]] for e in st], dtype=np.int64)
    out = []
    for e in st:
        ix = e["ix"]
        form = e.get("ix_form", "int")
        if isinstance(ix, list):
            ixv = np.array(ix, dtype=np.int64) if form == "ndarray" else list(ix)
        else:
            ixv = np.int64(ix) if form == "npint" else int(ix)
        at = build_attr(e["attr"])
        out.append([ixv, at] if e.get("entry_form") == "list" else (ixv, at))
    return out


def call_generate(gen, case):
    kw = dict(cardinality=case["cardinality"], structure=build_structure(case), ensure_rep=case["ensure_rep"],
              random_values=case["random_values"], low=case["low"], high=case["high"], seed=case["seed"])
    if case.get("k") is not None:
        kw["k"] = case["k"]
    return gen.generate_data(case["n_features"], case["n_samples"], **kw)


def run_gen(case, cc):
    with Recording():
        g = cc.CategoricalClassification()
        del TRACE[:]
        X = call_generate(g, case)
        trace = list(TRACE)
    X = np.asarray(X)
    out = {"ok": True, "dtype": str(X.dtype), "shape": list(X.shape), "X": X.tolist(), "trace": trace}
    # same seed and arguments, different generator history: same object again (global state advanced by the first
    # call and by extra draws), then a fresh object constructed with another constructor seed
    ORIG["randint"](0, 10, size=7)
    X2 = np.asarray(call_generate(g, case))
    g3 = cc.CategoricalClassification(seed=(case["seed"] + 12345) % (2 ** 32))
    ORIG["randint"](0, 10, size=3)
    X3 = np.asarray(call_generate(g3, case))
    same = (X2.shape == X.shape and X3.shape == X.shape and bool((X2 == X).all()) and bool((X3 == X).all())
            and X2.dtype == X.dtype and X3.dtype == X.dtype)
    out["same_seed_equal"] = same
    if not same:
        out["X_second"] = X2.tolist()
        out["X_third"] = X3.tolist()
    return out


def run_hist(case, cc):
    """one instance, a sequence of generate_data calls; each call recorded and compared with a FRESH instance"""
    g = cc.CategoricalClassification()
    calls = []
    for j, call in enumerate(case["calls"]):
        try:
            with Recording():
                X = np.asarray(call_generate(g, call))
                trace = list(TRACE)
            fresh = np.asarray(call_generate(cc.CategoricalClassification(), call))
        except Exception as e:
            for n in NAMES:
                setattr(np.random, n, ORIG[n])
            return {"ok": False, "call_index": j, "error": "%s: %s" % (type(e).__name__, e),
                    "tb": traceback.format_exc()[-1200:], "trace": list(TRACE)}
        same = fresh.shape == X.shape and fresh.dtype == X.dtype and bool((fresh == X).all())
        o = {"ok": True, "dtype": str(X.dtype), "shape": list(X.shape), "X": X.tolist(), "trace": trace,
             "same_seed_equal": same}
        if not same:
            o["X_second"] = fresh.tolist()
        calls.append(o)
    return {"ok": True, "calls": calls}


def run_naive(case, gn):
    ORIG["seed"](case["seed"])
    with Recording():
        sample, target = gn.generate_random_matrix(case["num_features"], case["size"])
        trace = list(TRACE)
    sample = np.asarray(sample)
    target = np.asarray(target)
    return {"ok": True, "sample": sample.tolist(), "target": target.tolist(), "trace": trace,
            "sample_shape": list(sample.shape), "target_shape": list(target.shape)}


SCRATCH = "/root/scratch/c19"


def run_task(case, tg, idx):
    import csv
    d = os.path.join(SCRATCH, "task_%d" % os.getpid())
    os.makedirs(d, exist_ok=True)
    cwd = os.getcwd()
    name = "c19_out_%d" % idx
    try:
        os.chdir(d)
        if case.get("preexisting"):
            os.mkdir(name)
            with open(os.path.join(name, "stale.txt"), "w") as f:
                f.write("x")
        args = types.SimpleNamespace(generator_type=case.get("generator_type", "naive"),
                                     num_synthetic_features=case["num_features"], num_synthetic_rows=case["size"],
                                     output_synthetic_df_name=name)
        ORIG["seed"](case["seed"])
        with Recording():
            tg.outrank_task_generate_data_set(args)
            trace = list(TRACE)
        files = sorted(os.listdir(name))
        with open(os.path.join(name, "data.csv"), newline="") as f:
            rows = list(csv.reader(f))
        return {"ok": True, "header": rows[0], "rows": rows[1:], "files": files, "trace": trace}
    finally:
        os.chdir(cwd)
        shutil.rmtree(d, ignore_errors=True)


def run_taskhist(case, tg, idx):
    """the SAME output folder reused for successive outrank_task_generate_data_set calls; data.csv read after each"""
    import csv
    d = os.path.join(SCRATCH, "task_%d" % os.getpid())
    os.makedirs(d, exist_ok=True)
    cwd = os.getcwd()
    name = "c19_hist_%d" % idx
    runs = []
    try:
        os.chdir(d)
        for j, run in enumerate(case["runs"]):
            try:
                args = types.SimpleNamespace(generator_type="naive", num_synthetic_features=run["num_features"],
                                             num_synthetic_rows=run["size"], output_synthetic_df_name=name)
                ORIG["seed"](run["seed"])
                with Recording():
                    tg.outrank_task_generate_data_set(args)
                    trace = list(TRACE)
                files = sorted(os.listdir(name))
                with open(os.path.join(name, "data.csv"), newline="") as f:
                    rows = list(csv.reader(f))
                runs.append({"ok": True, "header": rows[0], "rows": rows[1:], "files": files, "trace": trace})
            except Exception as e:
                for n in NAMES:
                    setattr(np.random, n, ORIG[n])
                return {"ok": False, "run_index": j, "error": "%s: %s" % (type(e).__name__, e),
                        "tb": traceback.format_exc()[-1200:], "trace": list(TRACE)}
        return {"ok": True, "runs": runs}
    finally:
        os.chdir(cwd)
        shutil.rmtree(d, ignore_errors=True)


results = []
try:
    from outrank.algorithms.synthetic_data_generators import cc_generator as cc  # noqa: E402
    from outrank.algorithms.synthetic_data_generators import generator_naive as gn  # noqa: E402
    import outrank.task_generators as tg  # noqa: E402
    import_error = None
except Exception as e:  # reported by the harness
    import_error = "%s: %s\n%s" % (type(e).__name__, e, traceback.format_exc()[-1500:])

if import_error is None:
    for i, case in enumerate(payload["cases"]):
        try:
            kind = case.get("kind", "gen")
            if kind == "gen":
                results.append(run_gen(case, cc))
            elif kind == "hist":
                results.append(run_hist(case, cc))
            elif kind == "taskhist":
                results.append(run_taskhist(case, tg, i))
            elif kind == "naive":
                results.append(run_naive(case, gn))
            else:
                results.append(run_task(case, tg, i))
        except Exception as e:  # an outcome, decided by the harness
            for n in NAMES:
                setattr(np.random, n, ORIG[n])
            results.append({"ok": False, "error": "%s: %s" % (type(e).__name__, e), "tb": traceback.format_exc()[-1200:],
                            "trace": list(TRACE)})
for n in NAMES:
    setattr(np.random, n, ORIG[n])
print("@@RESULT " + json.dumps({"results": results, "import_error": import_error}))
