"""SCALE families of the C01/C02/C03 checks: deterministic generators of long code-vector pairs and a vectorised (numpy)
transcription of MI/Model.v that yields the COMPRESSED term structure of `entry Y X flag`.

Imported by impl_c01.py (to regenerate the vectors from (family, n, seed) instead of shipping them as JSON) and run as a
script under /venv/bin/python (the harness interpreter has no numpy) to produce the expected term structures:
  stdin  {"scale": [{"gen": {...}, "flag": b}, ...], "small": [{"Y": [...], "X": [...], "flag": b}, ...]}
  stdout @@RESULT {"scale": [cterms...], "small": [cterms...], "stats": [...]}
It never imports outrank.  `np_terms` is held to the Coq model on every run: the harness compresses the Coq terms of the
run's small cases and compares them with `np_terms` of the same vectors (exact equality of integers).

Compressed terms: {"n", "corr", "classes": [[c, mult]], "real": [[cnt, c, mult]], "spoof": [[cnt, c, mult]]} — the multiset
of (stratum size, class count) pairs fed into log, zero counts and singleton strata dropped, exactly as `enc` does.
All randomness from np.random.RandomState(seed) (frozen legacy stream)."""
import json
import sys

import numpy as np

MAXCODE = 2 ** 20 - 1


# ---------------------------------------------------------------------------
# generators

def _perm(rs, n):
    return rs.permutation(n).astype(np.int64)


def _mostly_singletons(rs, n, k, groups):
    """n rows, k distinct codes 0..k-1: `groups` large strata share the rows not needed for the k - groups singletons;
    the large strata sit on scattered codes with singletons at the LOWEST codes and in between; rows shuffled."""
    groups = max(1, min(groups, k, n - (k - 1) if n >= k else 1))
    nsingle = k - groups
    rest = n - nsingle
    # sizes of the large strata: uneven, each >= 2
    w = rs.dirichlet(np.ones(groups) * 0.7)
    sizes = np.maximum(2, np.floor(w * rest).astype(np.int64))
    while sizes.sum() > rest:
        sizes[np.argmax(sizes)] -= 1
    sizes[np.argmax(sizes)] += rest - sizes.sum()
    big_codes = np.sort(rs.choice(np.arange(3, k), size=groups, replace=False)) if k - 3 >= groups else np.arange(k - groups, k)
    is_big = np.zeros(k, dtype=bool)
    is_big[big_codes] = True
    counts = np.ones(k, dtype=np.int64)
    counts[big_codes] = sizes
    X = np.repeat(np.arange(k, dtype=np.int64), counts)
    rs.shuffle(X)
    return X


def _interleaved(rs, n, k):
    """k distinct codes; about half of them singletons (code 0 and most low codes among them), interleaved in code order with
    repeated values of sizes 2.. (the C05 demo shape: 20 000 rows, 4 440 distinct, ~2 000 singletons)"""
    nsingle = k // 2
    single = np.zeros(k, dtype=bool)
    single[:min(k, 40):2] = True                         # 0, 2, 4, ... singletons at the very start
    idx = rs.choice(np.arange(k), size=nsingle, replace=False)
    single[idx] = True
    single[1] = False
    rep = np.where(~single)[0]
    rest = n - int(single.sum())
    w = rs.dirichlet(np.ones(len(rep)) * 0.5)
    sizes = np.maximum(2, np.floor(w * rest).astype(np.int64))
    while sizes.sum() > rest:
        sizes[np.argmax(sizes)] -= 1
    sizes[np.argmax(sizes)] += rest - sizes.sum()
    counts = np.ones(k, dtype=np.int64)
    counts[rep] = sizes
    X = np.repeat(np.arange(k, dtype=np.int64), counts)
    rs.shuffle(X)
    return X


def scale_pair(gen):
    fam, n, seed = gen["fam"], int(gen["n"]), int(gen["seed"])
    rs = np.random.RandomState(seed % (2 ** 32))
    if fam == "ad_ad":                       # all-distinct vs all-distinct: distinct(X)*distinct(Y) = n^2
        Y, X = _perm(rs, n), _perm(rs, n)
    elif fam == "self_ad":                   # all-distinct identifier against itself
        X = _perm(rs, n)
        Y = X.copy()
    elif fam == "self_manyvalues":           # self pair with n - 3000 (>= 37 000, up to 197 000) distinct values, a few repeated groups
        k = n - 3000 if n > 6000 else max(2, n - 40)      # cost of the real code ~ distinct(Y) * rows in repeated groups
        X = _mostly_singletons(rs, n, k, 12)
        Y = X.copy()
    elif fam in ("xsingles_1025", "xsingles_4440", "xsingles_70000"):
        k = int(fam.split("_")[1])
        k = min(k, n // 2)
        X = _interleaved(rs, n, k) if k <= 5000 else _mostly_singletons(rs, n, k, 400)
        ky = int(gen.get("ky", 7))
        Y = (X * 3 + rs.randint(0, ky, size=n)) % ky if rs.rand() < 0.5 else rs.randint(0, ky, size=n)
        Y = Y.astype(np.int64)
    elif fam == "ycard":                     # distinct(Y) > 65 536 (all-distinct when n <= 70 000), X: singletons + a few groups
        ky = min(n, 70000)
        Y = np.concatenate([np.arange(ky), rs.randint(0, ky, size=n - ky)]).astype(np.int64)
        rs.shuffle(Y)
        X = _mostly_singletons(rs, n, max(8, n - 9000), 6)
    elif fam in ("sorted_const", "sorted_lowcard", "drift_lowcard"):
        ky = int(gen.get("ky", 2 if fam == "sorted_const" else 10))
        if fam == "drift_lowcard":           # class distribution drifts along the rows
            t = np.arange(n) / float(n)
            Y = np.minimum(ky - 1, np.floor((t + 0.35 * rs.rand(n)) * ky / 1.35)).astype(np.int64)
        else:
            Y = np.sort(rs.randint(0, ky, size=n)).astype(np.int64)       # label-sorted
        X = np.full(n, 3, dtype=np.int64) if fam == "sorted_const" else rs.randint(0, 4, size=n).astype(np.int64)
    elif fam == "biggroup":                  # target groups of > 32 768 rows, high-cardinality feature
        X = rs.randint(0, 2, size=n).astype(np.int64)
        ky = int(gen.get("ky", 3000))
        Y = rs.randint(0, ky, size=n).astype(np.int64)
    elif fam == "biggroup_signal":           # the planted shape: informative feature against a binary target with big groups
        X = rs.randint(0, 2, size=n).astype(np.int64)
        flip = rs.rand(n) < 0.15
        Y = np.where(flip, 1 - X, X).astype(np.int64)
    elif fam == "biggroup_ident":            # identifier noise against the binary target (slow in the real code: thorough only)
        X = rs.randint(0, 2, size=n).astype(np.int64)
        Y = _perm(rs, n)
    elif fam == "prod31":                    # distinct(X)*distinct(Y) > 2^31 without all-distinct vectors
        X = _mostly_singletons(rs, n, n - 6000, 10)
        ky = int(gen.get("ky", 12000))
        Y = rs.randint(0, ky, size=n).astype(np.int64)
        Y[:ky] = np.arange(ky)
        rs.shuffle(Y)
    else:
        raise ValueError("unknown scale family %r" % fam)
    if gen.get("swap"):
        Y, X = X, Y
    rl = gen.get("relabel")
    if rl:                                   # injective recodings, codes stay in [0, 2^20)
        Y = _recode(Y, rl.get("f"))
        X = _recode(X, rl.get("g"))
    assert len(Y) == n and len(X) == n and Y.min() >= 0 and X.min() >= 0 and Y.max() <= MAXCODE and X.max() <= MAXCODE
    return Y, X


def _recode(v, spec):
    if not spec or spec[0] == "identity":
        return v
    if spec[0] == "offset":
        return v + min(int(spec[1]), MAXCODE - int(v.max()))
    if spec[0] == "reverse":
        return int(v.max()) + min(int(spec[1]), MAXCODE - int(v.max())) - v
    if spec[0] == "perm":                    # permutation of the used codes, from its own seed
        vals = np.unique(v)
        p = np.random.RandomState(int(spec[1]) % (2 ** 32)).permutation(vals)
        return p[np.searchsorted(vals, v)]
    raise ValueError(spec)


# ---------------------------------------------------------------------------
# vectorised transcription of MI/Model.v  `enc (entry Y X flag)`, compressed

def _hist2(a, b):
    if len(a) == 0:
        return []
    key = a.astype(np.int64) * (int(b.max()) + 1) + b.astype(np.int64)
    u, m = np.unique(key, return_counts=True)
    base = int(b.max()) + 1
    return [[int(k // base), int(k % base), int(c)] for k, c in zip(u, m)]


def np_terms(Y, X, flag):
    Y = np.asarray(Y, dtype=np.int64)
    X = np.asarray(X, dtype=np.int64)
    n = len(X)
    corr = bool(flag) and not np.array_equal(X, Y)                 # np.array_equal(X, Y): cardinality_correction = False
    _, yinv, ycnt = np.unique(Y, return_inverse=True, return_counts=True)      # numba_unique(Y)
    _, xinv, xcnt = np.unique(X, return_inverse=True, return_counts=True)      # numba_unique(X)
    ky = len(ycnt)
    cu, cm = np.unique(ycnt, return_counts=True)
    rowcnt = xcnt[xinv]                                            # _f_value_counts of the row's stratum
    keep = rowcnt > 1                                              # `if _f_value_counts == 1: continue`
    rows = np.nonzero(keep)[0]

    def joint(ycodes):
        key = xinv[rows].astype(np.int64) * ky + ycodes            # (stratum, class) of every kept row
        ku, kc = np.unique(key, return_counts=True)                # nonzero class counts per stratum
        return _hist2(xcnt[ku // ky], kc)
    real = joint(yinv[rows])
    spoof = joint(yinv[(rows + rowcnt[rows]) % len(Y)])            # Y[(el + _f_value_counts) % len(Y)]
    return {"n": int(n), "corr": corr, "classes": [[int(c), int(m)] for c, m in zip(cu, cm)], "real": real, "spoof": spoof}


def stats(Y, X):
    xu, xc = np.unique(X, return_counts=True)
    yu = np.unique(Y)
    return {"n": int(len(X)), "distinct_X": int(len(xu)), "distinct_Y": int(len(yu)), "singleton_strata": int((xc == 1).sum()),
            "largest_stratum": int(xc.max()), "identical": bool(np.array_equal(X, Y)),
            "product_over_2^31": bool(len(xu) * len(yu) > 2 ** 31), "rows_x_distinctX_over_2^24": bool(len(X) * len(xu) > 2 ** 24)}


if __name__ == "__main__":
    payload = json.load(sys.stdin)
    out = {"scale": [], "small": [], "stats": []}
    for c in payload.get("scale", []):
        Y, X = scale_pair(c["gen"])
        out["scale"].append(np_terms(Y, X, c["flag"]))
        out["stats"].append(stats(Y, X))
    for c in payload.get("small", []):
        out["small"].append(np_terms(c["Y"], c["X"], c["flag"]))
    print("@@RESULT " + json.dumps(out))
