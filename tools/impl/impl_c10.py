"""Runs the real compute_combined_features on generated frames (under /venv/bin/python, PYTHONPATH=$OUTRANK_REPO).
stdin: {"cases": [{"names": [...], "rows": [[cell,...],...], "label": str, "order": int, "cap": int, "is3mr": bool}]}
stdout: one line  @@RESULT {"results": [...]}  with, per case, the returned frame read by position."""
import json
import sys
import types

payload = json.load(sys.stdin)
import pandas as pd  # noqa: E402
import outrank.core_ranking as cr  # noqa: E402


class FakeBar:
    def set_description(self, *a, **k):
        pass

    def update(self, *a, **k):
        pass


def read_frame(out, n_expected_rows):
    """Frame -> names, per-column cell lists (by position), index regularity, number of non-str cells."""
    names = [str(c) for c in out.columns]
    cols = []
    nonstr = 0
    for j in range(out.shape[1]):
        vals = out.iloc[:, j].tolist()
        cells = []
        for v in vals:
            if isinstance(v, str):
                cells.append(v)
            else:
                nonstr += 1
                cells.append("<%s:%r>" % (type(v).__name__, v))
        cols.append(cells)
    index_ok = list(out.index) == list(range(len(out.index)))
    return {"names": names, "cols": cols, "index_ok": bool(index_ok), "nrows": int(out.shape[0]), "nonstr": nonstr}


out = []
for case in payload["cases"]:
    cr.GLOBAL_PRIOR_COMB_COUNTS.clear()
    try:
        df = pd.DataFrame(case["rows"], columns=case["names"])
        args = types.SimpleNamespace(
            label_column=case["label"], interaction_order=case["order"], combination_number_upper_bound=case["cap"],
            reference_model_JSON="", heuristic="MI-numba-randomized")
        res = cr.compute_combined_features(df, args, FakeBar(), bool(case.get("is3mr", False)))
        o = read_frame(res, len(case["rows"]))
        o["ok"] = True
        o["counter"] = sorted([list(k), int(v)] for k, v in cr.GLOBAL_PRIOR_COMB_COUNTS.items())
        out.append(o)
    except Exception as e:  # recorded outcome, decided by the harness
        import traceback
        out.append({"ok": False, "error": "%s: %s" % (type(e).__name__, e), "tb": traceback.format_exc()[-1500:]})
cr.GLOBAL_PRIOR_COMB_COUNTS.clear()
print("@@RESULT " + json.dumps({"results": out}))
