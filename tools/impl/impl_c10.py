"""Runs the real compute_combined_features on generated frames (under /venv/bin/python, PYTHONPATH=$OUTRANK_REPO).
stdin: {"cases": [{"names": [...], "rows": [[cell,...],...], "label": str, "order": int, "cap": int, "is3mr": bool}]}
stdout: one line  @@RESULT {"results": [...]}  with, per case, the returned frame read by position."""
import json
import sys
import types

payload = json.load(sys.stdin)
import pandas as pd  # noqa: E402
import outrank.core_ranking as cr  # noqa: E402


class FakeBar:
    def set_description(self, *a, **k):
        pass

    def update(self, *a, **k):
        pass


def read_frame(out, n_expected_rows):
    """Frame -> names, per-column cell lists (by position), whether the row labels are the input's (n_expected_rows =
    the input's index labels, in order), number of non-str cells."""
    names = [str(c) for c in out.columns]
    cols = []
    nonstr = 0
    for j in range(out.shape[1]):
        vals = out.iloc[:, j].tolist()
        cells = []
        for v in vals:
            if isinstance(v, str):
                cells.append(v)
            else:
                nonstr += 1
                cells.append("<%s:%r>" % (type(v).__name__, v))
        cols.append(cells)
    index_ok = list(out.index) == list(n_expected_rows)
    return {"names": names, "cols": cols, "index_ok": bool(index_ok), "nrows": int(out.shape[0]), "nonstr": nonstr}


def digest_exact(case, o):
    """informational only (never decides anything): how many new columns are, cell for cell,
    xxh64(utf8(enc(tuple))).hexdigest() for the model's enc = str(len(v)) + ':' + v per constituent"""
    import itertools
    import xxhash
    try:
        feats = [n for n in case["names"] if n != case["label"]]
        k = 2 if case.get("is3mr") else case["order"]
        sep = " AND_REL " if case.get("is3mr") else " AND "
        cand = {sep.join(c): c for c in itertools.combinations(feats, k)}
        nd = len(case["names"])
        good = 0
        for nm, col in zip(o["names"][nd:], o["cols"][nd:]):
            comb = cand.get(nm)
            if comb is None:
                continue
            pos = [case["names"].index(f) for f in comb]
            exp = [xxhash.xxh64("".join("%d:%s" % (len(row[p]), row[p]) for p in pos).encode("utf-8")).hexdigest()
                   for row in case["rows"]]
            good += 1 if exp == col else 0
        return [good, len(o["names"]) - nd]
    except Exception:
        return None


def score_agreement(case, o):
    """supporting comparison for "hence its score equals the score of the explicit value tuple": score every new column and an
    explicit tuple-coded column against the label with the real numba MI estimator (both settings of the cardinality
    correction) and with max-value-coverage.  Returns the worst case [abs diff, scale, column, scorer] or None."""
    import itertools
    import numpy as np
    try:
        from outrank.algorithms.feature_ranking import ranking_mi_numba, ranking_cov_alignment
    except Exception:
        return None
    if case["label"] not in case["names"] or len(case["rows"]) > 250:
        return None
    feats = [n for n in case["names"] if n != case["label"]]
    k = 2 if case.get("is3mr") else case["order"]
    sep = " AND_REL " if case.get("is3mr") else " AND "
    cand = {sep.join(c): c for c in itertools.combinations(feats, k)}
    nd = len(case["names"])
    lab = pd.Series([r[case["names"].index(case["label"])] for r in case["rows"]]).astype("category").cat.codes.to_numpy().astype(np.int32)
    worst = [0.0, 1.0, None, None]
    for nm, col in zip(o["names"][nd:], o["cols"][nd:]):
        comb = cand.get(nm)
        if comb is None or len(col) != len(case["rows"]):
            continue
        pos = [case["names"].index(f) for f in comb]
        ids = {}
        tup = np.array([ids.setdefault(tuple(r[p] for p in pos), len(ids)) for r in case["rows"]], dtype=np.int32)
        inter = pd.Series(col).astype("category").cat.codes.to_numpy().astype(np.int32)   # as mixed_rank_graph codes it
        for scorer, f in (("MI-numba", lambda x: float(ranking_mi_numba.mutual_info_estimator_numba(x, lab, np.float32(1.0), False))),
                          ("MI-numba-randomized", lambda x: float(ranking_mi_numba.mutual_info_estimator_numba(x, lab, np.float32(1.0), True))),
                          ("max-value-coverage", lambda x: float(ranking_cov_alignment.max_pair_coverage(x, lab)))):
            if scorer == "MI-numba-randomized" and (np.array_equal(inter, lab) or np.array_equal(tup, lab)):
                # the estimator switches the correction off when the two code vectors are element-wise equal (its self-pair
                # test, C02's `entry`); a coding that happens to coincide with the label's codes is not comparable with one
                # that does not.  C10_score_MI is about `core`, where the flag is an argument.
                continue
            a, b = f(inter), f(tup)
            d = abs(a - b)
            if not (d <= worst[0]):
                worst = [d, max(abs(a), abs(b), 1.0), nm, scorer, a, b]
    return worst


def reset_state():
    cr.GLOBAL_PRIOR_COMB_COUNTS.clear()
    for nm in dir(cr):                       # any further module-level cache a rewrite may introduce
        if nm.startswith("GLOBAL_") and nm != "GLOBAL_PRIOR_COMB_COUNTS":
            g = getattr(cr, nm)
            if hasattr(g, "clear"):
                g.clear()


class _Captured(Exception):
    pass


def cli_defaults():
    """the defaults of every option outrank/__main__.py's parser defines (so that environment-dependent branches of the code
    under test see what a real run sees, e.g. num_threads=8); hand-written fallback if the entry point changes shape"""
    import argparse
    try:
        import outrank.__main__ as m
        orig = argparse.ArgumentParser.parse_args

        def grab(self, *a, **k):
            raise _Captured(self)
        argparse.ArgumentParser.parse_args = grab
        try:
            m.main()
        except _Captured as c:
            parser = c.args[0]
        finally:
            argparse.ArgumentParser.parse_args = orig
        return {a.dest: a.default for a in parser._actions if a.dest != "help"}, True
    except BaseException:
        return {"label_column": "label", "interaction_order": 1, "combination_number_upper_bound": 2 ** 15,
                "reference_model_JSON": "", "heuristic": "MI-numba-randomized", "num_threads": 8,
                "missing_value_symbols": ",{}", "transformers": "none", "target_ranking_only": "True",
                "explode_multivalue_features": "False", "subfeature_mapping": "False",
                "include_noise_baseline_features": "False", "feature_set_focus": None, "task": "all",
                "mi_stratified_sampling_ratio": 1.0, "max_unique_hist_constraint": 30000,
                "rare_value_count_upper_bound": 1, "disable_tqdm": "False"}, False


CLI_DEFAULTS, CLI_DEFAULTS_FROM_PARSER = cli_defaults()


def make_args(**over):
    d = dict(CLI_DEFAULTS)
    d.update(over)
    return types.SimpleNamespace(**d)


def digits(x, d, k, little):
    ds = []
    for _ in range(k):
        ds.append(x % d)
        x //= d
    return ds if little else ds[::-1]


def large_frame(p):
    """deterministic large frames (too big to ship through JSON / Coq): returns names, rows, label"""
    import random
    n, off = p["n"], p.get("offset", 0)
    if p["kind"] == "grid":                  # all tuples distinct
        m = p["mod"]
        rows = [["u%d" % (i % m + off), "i%d" % (i // m + off), str(i & 1)] for i in range(n)]
        return ["user", "item", "label"], rows
    if p["kind"] == "dup":                   # d distinct tuples, each repeated
        d, m = p["distinct"], p["mod"]
        rows = []
        for i in range(n):
            j = (i * 7919) % d
            rows.append(["u%d" % (j % m + off), "i%d" % (j // m + off), str(i & 1)])
        return ["user", "item", "label"], rows
    # "scale": k id-like columns with d distinct values each (d ** k beyond 2**31 / 2**32 / 2**63 / 2**64), n rows just
    # above 2**16.  Row i < d carries id i in every column (so first-occurrence and sorted codes of id i are both i);
    # then pairs of tuples whose mixed-radix numbers (either digit order) differ by exactly 2**31, 2**32, 2**63, 2**64
    # where d ** k is large enough; the rest random tuples with repeats.
    k, d = p["k"], p["distinct"]
    rng = random.Random("scale/%d/%d/%d/%d" % (n, k, d, p.get("seed", 0)))

    def ident(c):
        return "%07d" % (c + off)
    tuples = [[i] * k for i in range(min(d, n))]
    space = d ** k
    for W in (2 ** 31, 2 ** 32, 2 ** 63, 2 ** 64):
        if space > W + 1:
            for little in (False, True):
                for _ in range(6):
                    x = rng.randrange(0, space - W)
                    a, b = digits(x, d, k, little), digits(x + W, d, k, little)
                    tuples += [a, b, a, b]
    pool = []
    while len(tuples) < n:
        if pool and rng.random() < 0.35:
            tuples.append(rng.choice(pool))
        else:
            t = [rng.randrange(d) for _ in range(k)]
            pool.append(t)
            tuples.append(t)
    tuples = tuples[:n]
    rows = [[ident(c) for c in t] + [str(i & 1)] for i, t in enumerate(tuples)]
    return ["f%d" % j for j in range(k)] + ["label"], rows


def judge_large(names, rows, order, res):
    """Python-side judgement of one returned frame: originals / names unchanged, every new cell a non-null string,
    tuple -> value a function and injective, per new column.  Returns (summary, problem-or-None)."""
    import itertools
    nd = len(names)
    feats = [x for x in names if x != "label"]
    cand = {" AND ".join(c): c for c in itertools.combinations(feats, order)}
    o = {"names": [str(c) for c in res.columns], "nrows": int(res.shape[0])}
    if o["nrows"] != len(rows) or not res.index.equals(pd.RangeIndex(len(rows))):
        return o, {"clause": "rows", "detail": "nrows=%d (input %d) or row labels changed" % (o["nrows"], len(rows))}
    if o["names"][:nd] != names or sorted(o["names"][nd:]) != sorted(cand):
        return o, {"clause": "names", "detail": {"names": o["names"][:12]}}
    for j in range(nd):
        if res.iloc[:, j].tolist() != [r[j] for r in rows]:
            return o, {"clause": "originals", "detail": "column %r changed" % names[j]}
    o["columns"] = []
    for j in range(nd, len(o["names"])):
        nm = o["names"][j]
        pos = [names.index(f) for f in cand[nm]]
        vals = res.iloc[:, j].tolist()
        bad = [i for i, v in enumerate(vals) if not isinstance(v, str)]
        if bad:
            return o, {"clause": "null", "column": nm, "n_bad": len(bad),
                       "rows": [{"row": i, "tuple": [rows[i][q] for q in pos], "value": repr(vals[i])} for i in bad[:4]]}
        t2v, v2t = {}, {}
        for i, (r, v) in enumerate(zip(rows, vals)):
            t = tuple(r[q] for q in pos)
            first = t2v.setdefault(t, (v, i))
            if first[0] != v:
                return o, {"clause": "function", "column": nm,
                           "rows": [{"row": first[1], "tuple": list(t), "value": first[0]}, {"row": i, "tuple": list(t), "value": v}]}
            first = v2t.setdefault(v, (t, i))
            if first[0] != t:
                return o, {"clause": "injective", "column": nm,
                           "rows": [{"row": first[1], "tuple": list(first[0]), "value": v}, {"row": i, "tuple": list(t), "value": v}]}
        o["columns"].append({"name": nm, "distinct_tuples": len(t2v), "distinct_values": len(v2t)})
    return o, None


def run_large(case):
    p = case["large"]
    names, rows = large_frame(p)
    order = p.get("k", 2)
    o = {"ok": True, "runs": [], "cli_defaults_from_parser": CLI_DEFAULTS_FROM_PARSER}
    for t in p.get("threads", [1, 4, 8]):
        reset_state()
        df = pd.DataFrame(rows, columns=names)
        args = make_args(label_column="label", interaction_order=order, combination_number_upper_bound=2 ** 20,
                         reference_model_JSON="", num_threads=t)
        try:
            res = cr.compute_combined_features(df, args, FakeBar(), False)
            summ, problem = judge_large(names, rows, order, res)
        except Exception as e:
            import traceback
            summ, problem = {}, {"clause": "raises", "detail": "%s: %s" % (type(e).__name__, e), "tb": traceback.format_exc()[-800:]}
        summ["num_threads"] = t
        summ["problem"] = problem
        o["runs"].append(summ)
        if problem:
            break
    return o


out = []
for case in payload["cases"]:
    if not case.get("keep_state"):           # histories: consecutive batches share the sampler's prior counts
        reset_state()
    try:
        if "large" in case:
            out.append(run_large(case))
            continue
        # default: the RangeIndex compute_batch_ranking builds; "index": a frame that was filtered / shuffled / re-labelled
        index = case.get("index")
        df = pd.DataFrame(case["rows"], columns=case["names"], index=index)
        labels = list(df.index)
        args = make_args(label_column=case["label"], interaction_order=case["order"],
                         combination_number_upper_bound=case["cap"], reference_model_JSON="",
                         heuristic="MI-numba-randomized", num_threads=case.get("threads", CLI_DEFAULTS.get("num_threads", 8)))
        res = cr.compute_combined_features(df, args, FakeBar(), bool(case.get("is3mr", False)))
        o = read_frame(res, labels)
        o["ok"] = True
        o["digest_exact"] = digest_exact(case, o)
        try:
            o["score_agreement"] = score_agreement(case, o)
        except Exception as e:            # the supporting comparison must never turn into an outcome of the code under test
            o["score_agreement"] = None
            o["score_agreement_error"] = repr(e)[:200]
        o["counter"] = sorted([list(k), int(v)] for k, v in cr.GLOBAL_PRIOR_COMB_COUNTS.items())
        out.append(o)
    except Exception as e:  # recorded outcome, decided by the harness
        import traceback
        out.append({"ok": False, "error": "%s: %s" % (type(e).__name__, e), "tb": traceback.format_exc()[-1500:]})
reset_state()
print("@@RESULT " + json.dumps({"results": out}))
