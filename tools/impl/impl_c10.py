"""Runs the real compute_combined_features on generated frames (under /venv/bin/python, PYTHONPATH=$OUTRANK_REPO).
stdin: {"cases": [{"names": [...], "rows": [[cell,...],...], "label": str, "order": int, "cap": int, "is3mr": bool}]}
stdout: one line  @@RESULT {"results": [...]}  with, per case, the returned frame read by position."""
import json
import sys
import types

payload = json.load(sys.stdin)
import pandas as pd  # noqa: E402
import outrank.core_ranking as cr  # noqa: E402


class FakeBar:
    def set_description(self, *a, **k):
        pass

    def update(self, *a, **k):
        pass


def read_frame(out, n_expected_rows):
    """Frame -> names, per-column cell lists (by position), whether the row labels are the input's (n_expected_rows =
    the input's index labels, in order), number of non-str cells."""
    names = [str(c) for c in out.columns]
    cols = []
    nonstr = 0
    for j in range(out.shape[1]):
        vals = out.iloc[:, j].tolist()
        cells = []
        for v in vals:
            if isinstance(v, str):
                cells.append(v)
            else:
                nonstr += 1
                cells.append("<%s:%r>" % (type(v).__name__, v))
        cols.append(cells)
    index_ok = list(out.index) == list(n_expected_rows)
    return {"names": names, "cols": cols, "index_ok": bool(index_ok), "nrows": int(out.shape[0]), "nonstr": nonstr}


def digest_exact(case, o):
    """informational only (never decides anything): how many new columns are, cell for cell,
    xxh64(utf8(enc(tuple))).hexdigest() for the model's enc = str(len(v)) + ':' + v per constituent"""
    import itertools
    import xxhash
    try:
        feats = [n for n in case["names"] if n != case["label"]]
        k = 2 if case.get("is3mr") else case["order"]
        sep = " AND_REL " if case.get("is3mr") else " AND "
        cand = {sep.join(c): c for c in itertools.combinations(feats, k)}
        nd = len(case["names"])
        good = 0
        for nm, col in zip(o["names"][nd:], o["cols"][nd:]):
            comb = cand.get(nm)
            if comb is None:
                continue
            pos = [case["names"].index(f) for f in comb]
            exp = [xxhash.xxh64("".join("%d:%s" % (len(row[p]), row[p]) for p in pos).encode("utf-8")).hexdigest()
                   for row in case["rows"]]
            good += 1 if exp == col else 0
        return [good, len(o["names"]) - nd]
    except Exception:
        return None


out = []
for case in payload["cases"]:
    cr.GLOBAL_PRIOR_COMB_COUNTS.clear()
    try:
        # default: the RangeIndex compute_batch_ranking builds; "index": a frame that was filtered / shuffled / re-labelled
        index = case.get("index")
        df = pd.DataFrame(case["rows"], columns=case["names"], index=index)
        labels = list(df.index)
        args = types.SimpleNamespace(
            label_column=case["label"], interaction_order=case["order"], combination_number_upper_bound=case["cap"],
            reference_model_JSON="", heuristic="MI-numba-randomized")
        res = cr.compute_combined_features(df, args, FakeBar(), bool(case.get("is3mr", False)))
        o = read_frame(res, labels)
        o["ok"] = True
        o["digest_exact"] = digest_exact(case, o)
        o["counter"] = sorted([list(k), int(v)] for k, v in cr.GLOBAL_PRIOR_COMB_COUNTS.items())
        out.append(o)
    except Exception as e:  # recorded outcome, decided by the harness
        import traceback
        out.append({"ok": False, "error": "%s: %s" % (type(e).__name__, e), "tb": traceback.format_exc()[-1500:]})
cr.GLOBAL_PRIOR_COMB_COUNTS.clear()
print("@@RESULT " + json.dumps({"results": out}))
