"""Runs the real compute_combined_features on generated frames (under /venv/bin/python, PYTHONPATH=$OUTRANK_REPO).
stdin: {"cases": [{"names": [...], "rows": [[cell,...],...], "label": str, "order": int, "cap": int, "is3mr": bool}]}
stdout: one line  @@RESULT {"results": [...]}  with, per case, the returned frame read by position."""
import json
import sys
import types

payload = json.load(sys.stdin)
import pandas as pd  # noqa: E402
import outrank.core_ranking as cr  # noqa: E402


class FakeBar:
    def set_description(self, *a, **k):
        pass

    def update(self, *a, **k):
        pass


def read_frame(out, n_expected_rows):
    """Frame -> names, per-column cell lists (by position), whether the row labels are the input's (n_expected_rows =
    the input's index labels, in order), number of non-str cells."""
    names = [str(c) for c in out.columns]
    cols = []
    nonstr = 0
    for j in range(out.shape[1]):
        vals = out.iloc[:, j].tolist()
        cells = []
        for v in vals:
            if isinstance(v, str):
                cells.append(v)
            else:
                nonstr += 1
                cells.append("<%s:%r>" % (type(v).__name__, v))
        cols.append(cells)
    index_ok = list(out.index) == list(n_expected_rows)
    return {"names": names, "cols": cols, "index_ok": bool(index_ok), "nrows": int(out.shape[0]), "nonstr": nonstr}


def digest_exact(case, o):
    """informational only (never decides anything): how many new columns are, cell for cell,
    xxh64(utf8(enc(tuple))).hexdigest() for the model's enc = str(len(v)) + ':' + v per constituent"""
    import itertools
    import xxhash
    try:
        feats = [n for n in case["names"] if n != case["label"]]
        k = 2 if case.get("is3mr") else case["order"]
        sep = " AND_REL " if case.get("is3mr") else " AND "
        cand = {sep.join(c): c for c in itertools.combinations(feats, k)}
        nd = len(case["names"])
        good = 0
        for nm, col in zip(o["names"][nd:], o["cols"][nd:]):
            comb = cand.get(nm)
            if comb is None:
                continue
            pos = [case["names"].index(f) for f in comb]
            exp = [xxhash.xxh64("".join("%d:%s" % (len(row[p]), row[p]) for p in pos).encode("utf-8")).hexdigest()
                   for row in case["rows"]]
            good += 1 if exp == col else 0
        return [good, len(o["names"]) - nd]
    except Exception:
        return None


def reset_state():
    cr.GLOBAL_PRIOR_COMB_COUNTS.clear()
    for nm in dir(cr):                       # any further module-level cache a rewrite may introduce
        if nm.startswith("GLOBAL_") and nm != "GLOBAL_PRIOR_COMB_COUNTS":
            g = getattr(cr, nm)
            if hasattr(g, "clear"):
                g.clear()


def large_frame(p):
    """deterministic large-cardinality frames (too big to ship through JSON / Coq): returns names, rows"""
    n, off = p["n"], p.get("offset", 0)
    if p["kind"] == "grid":                  # all tuples distinct
        m = p["mod"]
        rows = [["u%d" % (i % m + off), "i%d" % (i // m + off), str(i & 1)] for i in range(n)]
    else:                                    # "dup": d distinct tuples, each repeated
        d, m = p["distinct"], p["mod"]
        rows = []
        for i in range(n):
            j = (i * 7919) % d
            rows.append(["u%d" % (j % m + off), "i%d" % (j // m + off), str(i & 1)])
    return ["user", "item", "label"], rows


def run_large(case):
    p = case["large"]
    names, rows = large_frame(p)
    df = pd.DataFrame(rows, columns=names)
    args = types.SimpleNamespace(label_column="label", interaction_order=2, combination_number_upper_bound=2 ** 20,
                                 reference_model_JSON="", heuristic="MI-numba-randomized")
    res = cr.compute_combined_features(df, args, FakeBar(), False)
    o = {"ok": True, "names": [str(c) for c in res.columns], "nrows": int(res.shape[0]),
         "index_ok": list(res.index[:5]) == [0, 1, 2, 3, 4] and len(res.index) == len(rows)}
    if len(o["names"]) != 4:
        o["problem"] = "expected exactly one new column"
        return o
    vals = res.iloc[:, 3].tolist()
    prefix_ok = all(res.iloc[:, j].tolist() == [r[j] for r in rows] for j in range(3))
    o["prefix_ok"] = bool(prefix_ok)
    t2v, v2t = {}, {}
    collision = None
    split = None
    for r, v in zip(rows, vals):
        t = (r[0], r[1])
        if t2v.setdefault(t, v) != v and split is None:
            split = {"tuple": list(t), "values": [t2v[t], v]}
        if v2t.setdefault(v, t) != t and collision is None:
            collision = {"value": v, "tuples": [list(v2t[v]), list(t)]}
    o["distinct_tuples"] = len(t2v)
    o["distinct_values"] = len(v2t)
    o["collision"] = collision
    o["split"] = split
    o["value_sample"] = [str(x) for x in vals[:3]]
    return o


out = []
for case in payload["cases"]:
    if not case.get("keep_state"):           # histories: consecutive batches share the sampler's prior counts
        reset_state()
    try:
        if "large" in case:
            out.append(run_large(case))
            continue
        # default: the RangeIndex compute_batch_ranking builds; "index": a frame that was filtered / shuffled / re-labelled
        index = case.get("index")
        df = pd.DataFrame(case["rows"], columns=case["names"], index=index)
        labels = list(df.index)
        args = types.SimpleNamespace(
            label_column=case["label"], interaction_order=case["order"], combination_number_upper_bound=case["cap"],
            reference_model_JSON="", heuristic="MI-numba-randomized")
        res = cr.compute_combined_features(df, args, FakeBar(), bool(case.get("is3mr", False)))
        o = read_frame(res, labels)
        o["ok"] = True
        o["digest_exact"] = digest_exact(case, o)
        o["counter"] = sorted([list(k), int(v)] for k, v in cr.GLOBAL_PRIOR_COMB_COUNTS.items())
        out.append(o)
    except Exception as e:  # recorded outcome, decided by the harness
        import traceback
        out.append({"ok": False, "error": "%s: %s" % (type(e).__name__, e), "tb": traceback.format_exc()[-1500:]})
reset_state()
print("@@RESULT " + json.dumps({"results": out}))
