"""C04 — evaluates the numpy transcription of the Coq model (impl_c04_npmodel.py) on a batch of cases.

stdin: {"cases": [...]}; a small case carries the arrays ({"Y","X","r","c"}), a scale case only generator parameters
({"scale": {"n","k","seed","layout",...,"r","c"}}).  stdout: `@@RESULT {"results": [...]}` with, per case,
{"quota", "sampled", "terms"} and the model's sampled rows — in full ({"ys","xs"}) for small cases, as a summary
(length, sha1, per-value counts, head, tail) for scale cases.  Does not import outrank.
"""
import json
import sys
import time

import numpy as np

import impl_c04_npmodel as nm


def main():
    payload = json.load(sys.stdin)
    out = []
    for case in payload["cases"]:
        t0 = time.time()
        if "scale" in case:
            p = case["scale"]
            Y, X = nm.gen_scale(p)
            r, c = nm.frac(p["r"]), p["c"]
        else:
            Y = np.array(case["Y"], dtype=np.int32)
            X = np.array(case["X"], dtype=np.int32)
            r, c = nm.frac(case["r"]), case["c"]
        q, idx, terms = nm.model(Y, X, r, c)
        res = {"quota": q, "sampled": int(len(idx)), "terms": terms}
        if "scale" in case:
            res["sum"] = nm.summary(Y[idx], X[idx])
            res["n_values"] = int(len(np.unique(X)))
            res["model_seconds"] = round(time.time() - t0, 2)
        else:
            sidx = idx if r < 1 else nm.sampled_indices(X, r)[1]     # rows of the Coq function sampled_indices (C04_check)
            res["sampled"] = int(len(sidx))
            res["ys"] = Y[sidx].tolist()
            res["xs"] = X[sidx].tolist()
        out.append(res)
    print("@@RESULT " + json.dumps({"results": out}))


if __name__ == "__main__":
    main()
