"""C16 — drives the real line parsers / namespace reader / streaming loop of outrank on generated inputs.

Runs under /venv/bin/python with PYTHONPATH=$OUTRANK_REPO; reads {"cases": [...], "workdir": path} on stdin and
prints one line `@@RESULT <json>`.  Every case is a dict with a "kind":

  line       generic_line_parser on one line for a data source (+ the specific parse function, which must agree)
  writer     csv.writer (default dialect) on one row -> the rendered record without the line terminator
  stream     a whole file through estimate_importances_minibatches with compute_batch_ranking replaced by a
             recorder: rows entering each mini-batch, the invalid-line count from the logger, exception if any
  namespace  parse_namespace on a generated map file (+ parse_ob_vw_feature_information on its directory)
  csvheader  parse_csv_raw on a directory with data.csv -> column names
  obheader   read_column_names on a header file
  desc       parse_csv_with_description_information on a directory with dataset_desc.json
  isspace    the code points c with chr(c).isspace()
  dispatch   get_dataset_info dispatch on data source names (which reader is called / NotImplementedError)

Strings travel as lists of code points so that nothing depends on JSON escaping.
"""
import csv
import gzip
import io
import json
import os
import re
import shutil
import sys
import types

payload = json.load(sys.stdin)
WORK = payload["workdir"]
os.makedirs(WORK, exist_ok=True)

import outrank.core_utils as cu  # noqa: E402

sys.path.insert(0, os.path.dirname(os.path.abspath(__file__)))
import impl_c16_scalegen as sg  # noqa: E402

cr = None


def S(codes):
    return "".join(map(chr, codes))


def C(s):
    return [ord(c) for c in s]


def enc_row(row):
    return [None if x is None else C(x) for x in row]


def err_name(e):
    if isinstance(e, csv.Error):
        return "csv.Error"
    return type(e).__name__


def write_text(path, text, encoding="utf-8", gz=False):
    if gz:
        with gzip.open(path, "wt", encoding=encoding, newline="") as f:
            f.write(text)
    else:
        with open(path, "w", encoding=encoding, newline="") as f:
            f.write(text)


def do_line(c):
    src = c["source"]
    args = types.SimpleNamespace(data_source=src)
    fw = {S(k): S(v) for k, v in c["fw"]} if c.get("fw") is not None else None
    header = [S(h) for h in c["header"]]
    line = S(c["line"])
    delim = S(c["delim"])
    out = {}
    try:
        row = cu.generic_line_parser(line, delim, args, fw, header)
        if not isinstance(row, list) or not all(x is None or isinstance(x, str) for x in row):
            out["generic"] = {"err": "not-a-list-of-str: %r" % (row,)}
        else:
            out["generic"] = {"row": enc_row(row)}
    except Exception as e:  # recorded outcome
        out["generic"] = {"err": err_name(e)}
    try:
        if src == "ob-raw-dump":
            row = cu.parse_ob_line(line, delim)
        elif src == "ob-vw":
            row = cu.parse_ob_line_vw(line, delim, None, fw, header)
        elif src in ("ob-csv", "csv-raw"):
            row = cu.parse_ob_csv_line(line, delim)
        else:
            row = None
        out["specific"] = {"row": enc_row(row)} if row is not None else {"none": True}
    except Exception as e:
        out["specific"] = {"err": err_name(e)}
    return out


def do_writer(c):
    row = [S(x) for x in c["row"]]
    flags = c.get("flags")
    if flags is None:
        s = io.StringIO()
        csv.writer(s).writerow(row)
        v = s.getvalue()
        assert v.endswith("\r\n")
        return {"text": C(v[:-2])}
    # per-field quoting choices have no csv.writer counterpart unless every field is quoted
    out = {"text": None}
    if all(flags):
        for name, mode in (("all", csv.QUOTE_ALL), ("nonnumeric", csv.QUOTE_NONNUMERIC)):
            s = io.StringIO()
            csv.writer(s, quoting=mode).writerow(row)
            out[name] = C(s.getvalue()[:-2])
    return out


class Logger:
    def __init__(self):
        self.msgs = []

    def info(self, m):
        self.msgs.append(str(m))

    warning = error = debug = info


def do_stream(c, k):
    global cr
    if cr is None:
        import outrank.core_ranking as cr_  # slow import (numba): only when needed
        cr = cr_
    src = c["source"]
    gz = bool(c.get("gz"))
    d = os.path.join(WORK, "s%d" % k)
    os.makedirs(d, exist_ok=True)
    path = os.path.join(d, "data.bin.gz" if gz else "data.bin")
    write_text(path, S(c["text"]), c["encoding"], gz)
    fw = {S(a): S(b) for a, b in c["fw"]} if c.get("fw") is not None else None
    header = [S(h) for h in c["header"]]
    batches = []

    def recorder(line_tmp_storage, numeric_column_types, args, cpu_pool, column_descriptions, logger, pbar):
        batches.append([enc_row(r) for r in line_tmp_storage])
        return cu.BatchRankingSummary([], {}), {}, {}, {}

    args = types.SimpleNamespace(data_source=src, subsampling=1, minibatch_size=c["bsize"], disable_tqdm="True",
                                 heuristic="Constant")
    logger = Logger()
    orig = cr.compute_batch_ranking
    cr.compute_batch_ranking = recorder
    cwd = os.getcwd()
    os.chdir(d)
    out = {}
    try:
        cr.estimate_importances_minibatches(path, header, fw, set(), batch_size=c["bsize"], args=args,
                                            data_encoding=c["encoding"], cpu_pool=None, delimiter=S(c["delim"]),
                                            feature_construction_mode=False, logger=logger)
        out["err"] = None
    except Exception as e:
        out["err"] = err_name(e)
    finally:
        cr.compute_batch_ranking = orig
        os.chdir(cwd)
    inv = 0
    for m in logger.msgs:                       # "Detected N invalid lines. ..." (tolerant of rewording)
        mm = re.search(r"(\d+)\s+invalid", m, re.I) or (re.search(r"(\d+)", m) if re.search("invalid", m, re.I) else None)
        if mm:
            inv = int(mm.group(1))
            break
    out["batches"] = batches
    out["invalid"] = inv
    shutil.rmtree(d, ignore_errors=True)
    return out


def do_namespace(c, k):
    d = os.path.join(WORK, "n%d" % k)
    os.makedirs(d, exist_ok=True)
    path = os.path.join(d, "vw_namespace_map.csv")
    with open(path, "w", newline="") as f:      # same default encoding as the reader's open(path)
        f.write(S(c["text"]))
    out = {}
    try:
        fs, mp = cu.parse_namespace(path)
        out["floats"] = sorted(C(x) for x in fs)
        out["map"] = [[C(a), C(b)] for a, b in mp.items()]
        info = cu.parse_ob_vw_feature_information(d)
        out["columns"] = [C(x) for x in info.column_names]
        out["types"] = sorted(C(x) for x in info.column_types)
        out["fw"] = [[C(a), C(b)] for a, b in info.fw_map.items()]
        out["err"] = None
    except Exception as e:
        out["err"] = err_name(e)
    shutil.rmtree(d, ignore_errors=True)
    return out


def do_csvheader(c, k):
    d = os.path.join(WORK, "h%d" % k)
    os.makedirs(d, exist_ok=True)
    with open(os.path.join(d, "data.csv"), "w", newline="") as f:
        f.write(S(c["text"]))
    out = {}
    try:
        info = cu.parse_csv_raw(d)
        out = {"columns": [C(x) for x in info.column_names], "delim": C(info.col_delimiter), "err": None}
    except Exception as e:
        out = {"err": err_name(e)}
    shutil.rmtree(d, ignore_errors=True)
    return out


def do_obheader(c, k):
    d = os.path.join(WORK, "o%d" % k)
    os.makedirs(d, exist_ok=True)
    p = os.path.join(d, "header.csv")
    write_text(p, S(c["text"]), "utf-8")
    try:
        out = {"columns": [C(x) for x in cu.read_column_names(p)], "err": None}
    except Exception as e:
        out = {"err": err_name(e)}
    shutil.rmtree(d, ignore_errors=True)
    return out


def do_desc(c, k):
    d = os.path.join(WORK, "j%d" % k)
    os.makedirs(d, exist_ok=True)
    feats = [{"name": S(n), "type": S(t)} for n, t in c["features"]]
    with open(os.path.join(d, "dataset_desc.json"), "w") as f:
        json.dump({"data_features": feats}, f)
    try:
        info = cu.parse_csv_with_description_information(d)
        out = {"columns": [C(x) for x in info.column_names], "types": sorted(C(x) for x in info.column_types),
               "delim": C(info.col_delimiter), "err": None}
    except Exception as e:
        out = {"err": err_name(e)}
    shutil.rmtree(d, ignore_errors=True)
    return out


def do_dispatch(c):
    """Which reader does get_dataset_info call for a data-source name?"""
    called = []
    names = ["parse_ob_raw_feature_information", "parse_ob_vw_feature_information",
             "parse_csv_with_description_information", "parse_csv_raw"]
    saved = {n: getattr(cu, n) for n in names}
    try:
        for n in names:
            setattr(cu, n, (lambda n_: (lambda p: called.append(n_) or n_))(n))
        try:
            cu.get_dataset_info(types.SimpleNamespace(data_source=S(c["source"]), data_path="x"))
            return {"called": called, "err": None}
        except Exception as e:
            return {"called": called, "err": err_name(e)}
    finally:
        for n, f in saved.items():
            setattr(cu, n, f)


def do_seq(c):
    """lines parsed one after the other in this process (call history matters for stateful parsers)"""
    fw = {S(k): S(v) for k, v in c["fw"]} if c.get("fw") is not None else None
    header = [S(h) for h in c["header"]]
    rows = []
    for src, line in zip(c["sources"], c["lines"]):
        try:
            row = cu.generic_line_parser(S(line), S(c["delim"]), types.SimpleNamespace(data_source=src), fw, header)
            rows.append({"row": enc_row(row)})
        except Exception as e:
            rows.append({"err": err_name(e)})
    return {"rows": rows}


def confused_with(fmt, seed, n, got):
    """index and text of the generated line whose cells equal the row that came back (None when there is none)"""
    for j in range(n):
        line, exp = sg.gen(fmt, seed, j)
        if exp == got:
            return {"index": j, "line": C(line), "source": sg.source_of(fmt, j)}
    return None


def do_scale(c, k):
    """n DISTINCT generated lines through the real parser in this one process, judged against their known cells"""
    global cr
    fmt, seed, n = c["format"], c["seed"], c["n"]
    bad = []
    nbad = 0
    out = {"n": n}
    if fmt in ("csv", "tsv", "vw"):
        args = {s: types.SimpleNamespace(data_source=s) for s in ("csv-raw", "ob-csv", "ob-raw-dump", "ob-vw")}
        fw = dict((a, b) for a, b in sg.VW_FW) if fmt == "vw" else None
        header = sg.VW_HEADER if fmt == "vw" else sg.CSV_HEADER
        delim = {"csv": ",", "tsv": "\t", "vw": " "}[fmt]
        for i in range(n):
            line, exp = sg.gen(fmt, seed, i)
            src = sg.source_of(fmt, i)
            try:
                got = cu.generic_line_parser(line, delim, args[src], fw, header)
                if fmt == "csv" and i % 16 == 0 and cu.parse_ob_csv_line(line, delim) != got:
                    got = {"err": "generic_line_parser and parse_ob_csv_line disagree"}
            except Exception as e:
                got = {"err": err_name(e)}
            if got != exp:
                nbad += 1
                if len(bad) < 3:
                    bad.append({"index": i, "source": src, "line": C(line), "got": got if isinstance(got, dict) else enc_row(got),
                                "expected": enc_row(exp), "raw_got": got})
    else:                                       # one streamed file through the loop
        if cr is None:
            import outrank.core_ranking as cr_
            cr = cr_
        d = os.path.join(WORK, "scale%d" % k)
        os.makedirs(d, exist_ok=True)
        path = os.path.join(d, "data.csv")
        with open(path, "w", encoding="utf-8", newline="") as f:
            f.write(",".join(sg.CSV_HEADER) + "\n")
            for i in range(n):
                f.write(sg.gen("stream", seed, i)[0])
        state = {"i": 0, "rows": 0, "batches": []}

        def next_expected():
            while state["i"] < n:
                i = state["i"]
                state["i"] += 1
                line, exp = sg.gen("stream", seed, i)
                if exp is not None:
                    return i, line, exp
            return None, None, None

        def recorder(line_tmp_storage, numeric_column_types, args_, cpu_pool, column_descriptions, logger_, pbar):
            nonlocal nbad
            state["batches"].append(len(line_tmp_storage))
            for row in line_tmp_storage:
                i, line, exp = next_expected()
                state["rows"] += 1
                if row != exp:
                    nbad += 1
                    if len(bad) < 3:
                        bad.append({"index": i, "source": "csv-raw", "line": None if line is None else C(line),
                                    "got": enc_row(row) if isinstance(row, list) else repr(row),
                                    "expected": None if exp is None else enc_row(exp), "raw_got": row})
            return cu.BatchRankingSummary([], {}), {}, {}, {}

        args = types.SimpleNamespace(data_source="csv-raw", subsampling=1, minibatch_size=c["bsize"], disable_tqdm="True",
                                     heuristic="Constant")
        logger = Logger()
        orig = cr.compute_batch_ranking
        cr.compute_batch_ranking = recorder
        cwd = os.getcwd()
        os.chdir(d)
        try:
            cr.estimate_importances_minibatches(path, sg.CSV_HEADER, None, set(), batch_size=c["bsize"], args=args,
                                                data_encoding="utf-8", cpu_pool=None, delimiter=",",
                                                feature_construction_mode=False, logger=logger)
            out["err"] = None
        except Exception as e:
            out["err"] = err_name(e)
        finally:
            cr.compute_batch_ranking = orig
            os.chdir(cwd)
        inv = 0
        for m in logger.msgs:
            mm = re.search(r"(\d+)\s+invalid", m, re.I) or (re.search(r"(\d+)", m) if re.search("invalid", m, re.I) else None)
            if mm:
                inv = int(mm.group(1))
                break
        out["invalid"] = inv
        out["rows_seen"] = state["rows"]
        out["batches"] = state["batches"]
        shutil.rmtree(d, ignore_errors=True)
    for b in bad:
        raw = b.pop("raw_got")
        b["confused_with"] = confused_with(fmt, seed, n, raw) if isinstance(raw, list) else None
    out["mismatches"] = nbad
    out["first"] = bad
    return out


out = []
for k, c in enumerate(payload["cases"]):
    kind = c["kind"]
    try:
        if kind == "line":
            r = do_line(c)
        elif kind == "writer":
            r = do_writer(c)
        elif kind == "stream":
            r = do_stream(c, k)
        elif kind == "namespace":
            r = do_namespace(c, k)
        elif kind == "csvheader":
            r = do_csvheader(c, k)
        elif kind == "obheader":
            r = do_obheader(c, k)
        elif kind == "desc":
            r = do_desc(c, k)
        elif kind == "isspace":
            r = {"codes": [i for i in range(0x110000) if chr(i).isspace()]}
        elif kind == "dispatch":
            r = do_dispatch(c)
        elif kind == "seq":
            r = do_seq(c)
        elif kind == "scale":
            r = do_scale(c, k)
        else:
            r = {"harness_err": "unknown kind"}
    except Exception as e:  # harness-side problem with this case (reported, not a verdict)
        import traceback
        r = {"harness_err": traceback.format_exc()[-800:]}
    out.append(r)
shutil.rmtree(WORK, ignore_errors=True)
print("@@RESULT " + json.dumps({"results": out}))
