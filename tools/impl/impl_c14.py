"""Drives the real HyperLogLogWCache (under /venv/bin/python, PYTHONPATH=$OUTRANK_REPO).

stdin: {"cases": [small case ...], "big": [big spec ...]}
  small case: {"p", "W", "values": [["s", text] | ["b", hex]], "ops": [value index ...]}
     the instance attributes p / m / warmup_size / width are set small by the harness, so that the
     warm-up boundary is crossed cheaply; everything else is the unmodified class.
  big spec:   {"family", "n", "seed", "dups"}  -- a real-size run on an untouched instance (p = 19).
stdout: one line  @@RESULT <json>.

The hash oracle is tabulated here from the real xxhash: xxh32(bytes, seed=p).intdigest().
A second oracle is read off the implementation's own _hasher_update (bucket, rank of every value)
so that the harness can tell "different hash function" from "different sketch logic"."""
import base64
import json
import random
import sys
import warnings

payload = json.load(sys.stdin)
import numpy as np  # noqa: E402
import xxhash  # noqa: E402
from outrank.algorithms.sketches.counting_ultiloglog import HyperLogLogWCache  # noqa: E402

warnings.simplefilter("ignore")


def mkval(spec):
    kind = spec[0]
    if kind == "l":      # ["l", ch, n, tail]: a long str, ch * n + tail, given by its generator parameters
        return spec[1] * spec[2] + spec[3]
    if kind == "lb":     # the same as bytes
        return (spec[1] * spec[2] + spec[3]).encode("utf-8")
    x = spec[1]
    return x if kind == "s" else bytes.fromhex(x)


def as_bytes(v):
    return v.encode("utf-8") if isinstance(v, str) else bytes(v)


def length(h):
    with np.errstate(all="ignore"):
        return int(len(h))


def state(h, index):
    if h.hll_flag:
        M = np.asarray(h.M)
        return {"cold": True, "regs": [int(x) for x in M.tolist()], "integral": bool(np.all(M == np.floor(M)))}
    return {"cold": False, "set": sorted(index[v] for v in h.warmup_set)}


class _Rec:
    """Stands for the register array while one value is pushed through _hasher_update: records (bucket, rank)."""

    def __init__(self):
        self.j = self.v = None

    def __getitem__(self, j):
        return 0

    def __setitem__(self, j, v):
        self.j, self.v = int(j), v


def own_oracle(p, m, width, vals):
    """(bucket, rank) of every value as the implementation's _hasher_update computes them (None if not readable)."""
    out = []
    try:
        g = HyperLogLogWCache()
        g.p, g.m, g.width = p, m, width
    except Exception:
        return [None] * len(vals)
    for v in vals:
        try:
            g.M = _Rec()
            g._hasher_update(v)
            rec = g.M
            ok = rec.j is not None and 0 <= rec.j < m and int(rec.v) == rec.v and 0 < int(rec.v) < 256
            out.append([rec.j, int(rec.v)] if ok else None)
        except Exception:
            out.append(None)
    return out


def run_small(case):
    p, W = case["p"], case["W"]
    vals = [mkval(s) for s in case["values"]]
    index = {v: i for i, v in enumerate(vals)}
    hashes = [xxhash.xxh32(as_bytes(v), seed=p).intdigest() for v in vals]
    lens, flags = [], []
    first_cold = None
    err = None
    try:
        h = HyperLogLogWCache()
        h.p = p
        h.m = 1 << p
        h.warmup_size = W
        h.width = 64 - p
        for k, i in enumerate(case["ops"]):
            h.add(vals[i])
            lens.append(length(h))
            flags.append(bool(h.hll_flag))
            if h.hll_flag and first_cold is None:
                first_cold = {"at": k, "state": state(h, index)}
        final = state(h, index)
    except Exception as e:  # an outcome, decided by the harness
        err = "%s: %s" % (type(e).__name__, e)
        final = None
    return {"ok": err is None, "error": err, "lens": lens, "flags": flags, "final": final, "first_cold": first_cold,
            "hashes": hashes, "own": own_oracle(p, 1 << p, 64 - p, vals), "own31": own_oracle(31, 1 << 31, 33, vals)}


def b64(arr):
    return base64.b64encode(arr.tobytes()).decode("ascii")


def big_values(family, n, seed):
    if family == "seq":
        return [str(i) for i in range(n)]
    if family == "hex":       # what compute_cardinalities inserts: internal_hash(str(cell))
        from outrank.core_utils import internal_hash
        return [internal_hash(str(i * 7919 + seed)) for i in range(n)]
    if family == "rand":
        r = random.Random(seed)
        abc = "abcdefghijklmnopqrstuvwxyz0123456789-_ éß"
        return ["".join(r.choice(abc) for _ in range(r.randint(1, 12))) for _ in range(n)]
    if family == "bytes":
        r = random.Random(seed)
        return [r.getrandbits(64).to_bytes(8, "little") for _ in range(n)]
    raise ValueError(family)


def run_big(spec):
    """Stream = the family's values in a seeded order, with re-insertions of earlier values mixed in
    (rate `dups`), and a scripted episode around the point where the number of distinct values reaches
    the warm-up capacity.  len() is recorded at every op within 40 ops of that point and sparsely elsewhere."""
    fam, n, seed, dups = spec["family"], spec["n"], spec["seed"], spec.get("dups", 0.05)
    r = random.Random(seed * 1000003 + 17)
    raw = big_values(fam, n, seed)
    r.shuffle(raw)
    h = HyperLogLogWCache()
    W = int(h.warmup_size)
    consts = {"p": int(h.p), "m": int(h.m), "warmup_size": W, "width": int(h.width)}
    index = {}
    order = []          # distinct values in first-occurrence order
    ids = []            # value id per op
    stream = []
    for v in raw:
        if v not in index:
            index[v] = len(order)
            order.append(v)
            newv = True
        else:
            newv = False
        stream.append(v)
        ids.append(index[v])
        if newv and len(order) == W:
            # at the boundary: repeats must stay exact; the next new value converts; repeat it too
            for _ in range(6):
                w = order[r.randrange(len(order))]
                stream.append(w)
                ids.append(index[w])
        elif newv and len(order) == W + 1:
            for w in (v, order[0], v, order[r.randrange(len(order))]):
                stream.append(w)
                ids.append(index[w])
        elif r.random() < dups:
            w = order[r.randrange(len(order))] if r.random() < 0.7 else order[-1]
            stream.append(w)
            ids.append(index[w])
    # checkpoints
    nd = 0
    seen_upto = -1
    bpos = None
    for k, i in enumerate(ids):
        if i > seen_upto:
            seen_upto = i
            nd += 1
            if nd == W and bpos is None:
                bpos = k
    total = len(ids)
    cps = set()
    if bpos is not None:
        cps.update(range(max(0, bpos - 40), min(total, bpos + 60)))
    step = max(1, total // 150)
    cps.update(range(0, total, step))
    cps.update(range(min(total, 30)))
    cps.add(total - 1)
    for _ in range(100):
        k = r.randrange(total)
        cps.add(k)
        if k + 1 < total:
            cps.add(k + 1)
    out = []
    err = None
    p = consts["p"]
    nlong = int(spec.get("long", 0))     # a block of very long values (64 KiB shared prefix + short distinct tail) at the end
    long_hashes, long_own = [], []
    lstep = max(1, nlong // 12)
    try:
        for k, v in enumerate(stream):
            h.add(v)
            if k in cps:
                out.append([k, length(h), bool(h.hll_flag)])
        prefix = "x" * spec.get("long_len", 65536)
        for i in range(nlong):
            v = prefix + "|" + str(i)
            h.add(v)
            ids.append(len(order) + i)
            long_hashes.append(xxhash.xxh32(v.encode("utf-8"), seed=p).intdigest())     # hash of the FULL payload
            long_own.append(own_oracle(consts["p"], consts["m"], consts["width"], [v])[0])
            if i % lstep == 0 or i == nlong - 1 or i % 1000 == 7:
                out.append([len(ids) - 1, length(h), bool(h.hll_flag)])
            if i % 1000 == 7:           # re-adding one of the long values must change nothing
                h.add(prefix + "|" + str(i - 3))
                ids.append(len(order) + i - 3)
                out.append([len(ids) - 1, length(h), bool(h.hll_flag)])
        total = len(ids)
    except Exception as e:
        err = "%s: %s" % (type(e).__name__, e)
    hashes = np.array([xxhash.xxh32(as_bytes(v), seed=p).intdigest() for v in order] + long_hashes, dtype=np.uint32)
    res = {"ok": err is None, "error": err, "consts": consts, "checkpoints": out, "n_ops": total,
           "ids": b64(np.array(ids, dtype=np.uint32)), "hashes": b64(hashes), "cold": bool(h.hll_flag)}
    own = own_oracle(consts["p"], consts["m"], consts["width"], order) + long_own
    if all(o is not None for o in own):
        res["own_buckets"] = b64(np.array([o[0] for o in own], dtype=np.uint32))
        res["own_rhos"] = b64(np.array([o[1] for o in own], dtype=np.uint8))
    if err is None:
        if h.hll_flag:
            M = np.asarray(h.M)
            res["regs"] = b64(M.astype(np.uint8))
            res["regs_ok"] = bool(np.all((M >= 0) & (M < 256) & (M == np.floor(M))) and len(M) == h.m)
        else:
            res["set_size"] = len(h.warmup_set)
            res["set_ok"] = bool(set(h.warmup_set) == set(order)) and nlong == 0
    return res


class _Bar:
    def set_description(self, *a, **k):
        pass


def run_pipeline(case):
    """The sketch as the ranking pipeline feeds it: core_ranking.compute_cardinalities over mini-batches.  The class the
    pipeline instantiates is wrapped so that the fresh instance gets small p / m / warmup_size / width."""
    import pandas as pd
    import outrank.core_ranking as cr
    from outrank.core_utils import internal_hash
    p, W = case["p"], case["W"]
    real = cr.HyperLogLog

    def factory(*a, **k):
        h = real(*a, **k)
        h.p, h.m, h.warmup_size, h.width = p, 1 << p, W, 64 - p
        return h
    cr.GLOBAL_CARDINALITY_STORAGE.clear()
    cr.GLOBAL_COUNTS_STORAGE.clear()
    cr.HyperLogLog = factory
    obs, final, err = [], {}, None
    digest = {}
    try:
        for batch in case["batches"]:
            for vals in batch.values():
                for v in vals:
                    d = internal_hash(str(v))
                    digest[str(v)] = [d, xxhash.xxh32(d.encode("utf-8"), seed=p).intdigest()]
            df = pd.DataFrame(batch)
            cr.compute_cardinalities(df, _Bar(), 10 ** 6)
            obs.append({col: [length(cr.GLOBAL_CARDINALITY_STORAGE[col]), bool(cr.GLOBAL_CARDINALITY_STORAGE[col].hll_flag)]
                        for col in df.columns})
        for col, h in cr.GLOBAL_CARDINALITY_STORAGE.items():
            if h.hll_flag:
                final[col] = {"cold": True, "regs": [int(x) for x in np.asarray(h.M).tolist()]}
            else:
                final[col] = {"cold": False, "set": sorted(h.warmup_set)}
    except Exception as e:
        err = "%s: %s" % (type(e).__name__, e)
    finally:
        cr.HyperLogLog = real
        cr.GLOBAL_CARDINALITY_STORAGE.clear()
        cr.GLOBAL_COUNTS_STORAGE.clear()
    return {"ok": err is None, "error": err, "obs": obs, "final": final, "digest": digest}


def default_probe():
    """A short exactness / duplicate-blindness history on an UNPOKED default instance (None = passes)."""
    try:
        h = HyperLogLogWCache()
        seen = set()
        for k in range(300):
            v = "probe%d" % ((k * 7) % 120)
            before = length(h)
            h.add(v)
            if v in seen and length(h) != before:
                return "re-adding %r changed len from %d to %d" % (v, before, length(h))
            seen.add(v)
            if length(h) != len(seen) or h.hll_flag:
                return "len %d after %d distinct values" % (length(h), len(seen))
        return None
    except Exception as e:
        return "%s: %s" % (type(e).__name__, e)


def run_pipeline_big(spec):
    """compute_cardinalities at real size (untouched class): an id-like column whose number of distinct cells crosses the
    warm-up capacity inside the second mini-batch, a third mini-batch of repeats only, and a small second column."""
    import pandas as pd
    import outrank.core_ranking as cr
    from outrank.core_utils import internal_hash
    g = HyperLogLogWCache()
    p, W = int(g.p), int(g.warmup_size)
    r = random.Random(spec["seed"])
    n1, n2 = W - spec.get("before", 50), spec.get("new", 120)
    vals = ["id%d_%d" % (spec["seed"], i) for i in range(n1 + n2)]
    b1 = list(range(n1)) + [r.randrange(n1) for _ in range(500)]
    b2 = [r.randrange(n1) for _ in range(300)] + list(range(n1, n1 + n2)) + [r.randrange(n1 + n2) for _ in range(300)]
    b3 = [r.randrange(n1 + n2) for _ in range(1000)]
    r.shuffle(b1)
    r.shuffle(b2)
    cr.GLOBAL_CARDINALITY_STORAGE.clear()
    cr.GLOBAL_COUNTS_STORAGE.clear()
    res = {"ok": True, "error": None, "consts": {"p": p, "m": int(g.m), "warmup_size": W, "width": int(g.width)}, "obs": [],
           "cum_distinct": [], "cum_small": []}
    order, index = [], {}
    small_seen = set()
    try:
        for chunk in (b1, b2, b3):
            df = pd.DataFrame({"id": [vals[i] for i in chunk], "k": [i % 7 + 1 for i in chunk]})
            for i in chunk:
                d = internal_hash(str(vals[i]))
                if d not in index:
                    index[d] = len(order)
                    order.append(d)
                small_seen.add(internal_hash(str(i % 7 + 1)))
            cr.compute_cardinalities(df, _Bar(), 10 ** 6)
            res["obs"].append({c: [length(cr.GLOBAL_CARDINALITY_STORAGE[c]), bool(cr.GLOBAL_CARDINALITY_STORAGE[c].hll_flag)]
                               for c in df.columns})
            res["cum_distinct"].append(len(order))
            res["cum_small"].append(len(small_seen))
    except Exception as e:
        res["ok"], res["error"] = False, "%s: %s" % (type(e).__name__, e)
    res["hashes"] = b64(np.array([xxhash.xxh32(d.encode("utf-8"), seed=p).intdigest() for d in order], dtype=np.uint32))
    cr.GLOBAL_CARDINALITY_STORAGE.clear()
    cr.GLOBAL_COUNTS_STORAGE.clear()
    return res


out = {"results": [], "big": [], "pipeline": [], "pipeline_big": []}
if payload.get("default_probe"):
    out["default_probe"] = default_probe()
for s in payload.get("pipeline_big", []):
    out["pipeline_big"].append(run_pipeline_big(s))
for c in payload.get("pipeline", []):
    out["pipeline"].append(run_pipeline(c))
for c in payload.get("cases", []):
    out["results"].append(run_small(c))
for s in payload.get("big", []):
    out["big"].append(run_big(s))
g = HyperLogLogWCache()
out["defaults"] = {"p": int(g.p), "m": int(g.m), "warmup_size": int(g.warmup_size), "width": int(g.width)}
print("@@RESULT " + json.dumps(out))
