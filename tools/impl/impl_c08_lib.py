"""Shared implementation-side machinery of C08/C09 (see impl_c08.py).  Importing this module imports outrank."""
import csv
import io
import json
import math
import os
import random
import re
import shutil
import sys
import traceback
import types


import logging  # noqa: E402

import outrank.core_ranking as cr  # noqa: E402
import outrank.task_ranking as tr  # noqa: E402

logging.getLogger().setLevel(logging.ERROR)
logging.getLogger("syn-logger").setLevel(logging.ERROR)


# ---------------------------------------------------------------------------------------------------------------
# the args namespace, exactly as outrank/__main__.py builds it (its parser lives inside main(): capture it)

def build_args(argv):
    import argparse
    try:
        import outrank.__main__ as M

        class _Stop(Exception):
            pass
        got = {}
        orig = argparse.ArgumentParser.parse_args

        def fake(self, *a, **k):
            got["ns"] = orig(self, argv)
            raise _Stop()
        argparse.ArgumentParser.parse_args = fake
        try:
            M.main()
        except _Stop:
            pass
        finally:
            argparse.ArgumentParser.parse_args = orig
        if "ns" in got:
            return got["ns"], "parser of outrank.__main__.main"
    except Exception:  # fall back to the documented defaults
        pass
    d = dict(task="all", minibatch_size=2 ** 14, output_folder="ranking_outputs", data_source="ob-vw", data_path=None,
             subsampling=10, combination_number_upper_bound=2 ** 15, missing_value_symbols=",{}",
             heuristic="MI-numba-randomized", include_noise_baseline_features="False",
             include_cardinality_in_feature_names="True", image_format="pdf", num_threads=8, label_column="label",
             max_unique_hist_constraint=30000, transformers="none", rare_value_count_upper_bound=1,
             feature_set_focus=None, interaction_order=1, reference_model_JSON="", target_ranking_only="True",
             explode_multivalue_features="False", subfeature_mapping="False", num_synthetic_features=100, tldr="True",
             num_synthetic_rows=1000000, generator_type="naive", output_synthetic_df_name="test_data_synthetic",
             disable_tqdm="False", mi_stratified_sampling_ratio=1.0)
    ns = types.SimpleNamespace(**d)
    i = 0
    while i < len(argv):
        k = argv[i][2:]
        v = argv[i + 1]
        ns.__dict__[k] = type(d[k])(v) if d.get(k) is not None else v
        i += 2
    return ns, "fallback namespace (parser not reachable)"


# ---------------------------------------------------------------------------------------------------------------
# file generation (shared description: see tools/props/c08.py gen_lines)

def render_line(lineno, nfields, flavor, ncols, rng, pad=0, overrides=None):
    """One data line with exactly `nfields` csv fields (0 = blank line).  Always draws the same number of values."""
    f1 = rng.randint(0, 3)
    f2 = rng.randint(0, 6)
    noise = rng.random()
    extra = [rng.randint(0, 4) for _ in range(max(0, ncols - 4))]
    label = (1 if f1 >= 2 else 0) if noise < 0.7 else rng.randint(0, 1)
    feats = (["a%d" % f1, "b%d" % f2] + ["c%d" % e for e in extra])[:max(0, ncols - 2)]
    cells = ["r%d" % lineno] + feats + [str(label)]
    for idx, spec in (overrides or {}).items():  # edge columns: "const:<v>", "empty", "periodic:<k>"
        j = int(idx)
        if 0 <= j < len(cells):
            if spec == "empty":
                cells[j] = ""
            elif spec.startswith("const:"):
                cells[j] = spec[6:]
            elif spec.startswith("periodic:"):
                cells[j] = "p%d" % (lineno % int(spec[9:]))
    if pad and len(cells) > 1:                   # longer rows (scale files): the same suffix on every row, categories unchanged
        cells[1] = cells[1] + "_" * pad
    if nfields == 0:
        return ""
    if nfields < len(cells):
        cells = cells[:nfields]
    else:
        cells = cells + ["x%d" % j for j in range(nfields - len(cells))]
    if flavor == 1 and len(cells) >= 2:          # a quoted cell containing the delimiter: still one field
        j = 1 + (lineno % (len(cells) - 1))
        cells[j] = '"%s,%s"' % (cells[j], "q")
    elif flavor == 2 and len(cells) >= 2:        # doubled quote inside a quoted cell
        j = 1 + (lineno % (len(cells) - 1))
        cells[j] = '"%s""z"' % cells[j]
    return ",".join(cells)


def write_file(case, path):
    rng = random.Random(case["seed"])
    ncols = len(case["cols"])
    eol = "\r\n" if case.get("crlf") else "\n"
    pad = int(case.get("pad", 0))
    lineno = 0
    with open(path, "w", encoding="latin1", newline="") as f:
        f.write(",".join(case["cols"]) + eol)
        nseg = len(case["segments"])
        for si, (count, nfields, flavor) in enumerate(case["segments"]):
            for j in range(count):
                lineno += 1
                last = (si == nseg - 1 and j == count - 1)
                ln = render_line(lineno, nfields, flavor, ncols, rng, pad, case.get("col_override"))
                if last and not case.get("trailing_newline", True) and ln != "":
                    f.write(ln)
                else:
                    f.write(ln + eol)
    if case.get("gzip"):                         # a gzipped copy next to it (only reachable through the direct entry)
        import gzip
        with open(path, "rb") as src, gzip.open(path + ".gz", "wb", compresslevel=1) as dst:
            shutil.copyfileobj(src, dst)
    return lineno


# ---------------------------------------------------------------------------------------------------------------
# pools

class _Res:
    def __init__(self, v):
        self.v = v

    def ready(self):
        return True

    def get(self, timeout=None):
        return self.v


class SerialPool:
    """The amap contract, executed serially in task order."""
    kind = "serial"

    def __init__(self, n=1):
        self.n = n
        self.schedules = []

    def __enter__(self):
        return self

    def __exit__(self, *a):
        return False

    def close(self):
        pass

    def join(self):
        pass

    def clear(self):
        pass

    def _run(self, f, xs):
        return [f(x) for x in xs]

    def amap(self, f, xs):
        return _Res(self._run(f, list(xs)))

    def map(self, f, xs):
        return self._run(f, list(xs))

    def imap(self, f, xs):
        return iter(self._run(f, list(xs)))

    def uimap(self, f, xs):
        return iter(self._run(f, list(xs)))


class AdversarialPool(SerialPool):
    """Honours the contract of `amap`/`map`/`imap` (results in task order) but splits the tasks into chunks over `n`
    workers and completes them in an adversarial/random interleaving; every task runs in the "worker" that owns its
    chunk (a fresh state per worker would show here if the scorer kept any).  `uimap` yields in completion order, as
    the real unordered map does.  With unordered=True even `amap` returns the results in completion order - this breaks
    the contract on purpose and is only used to exercise C09_unordered_same (reported, never a violation by itself)."""
    kind = "adversarial"

    def __init__(self, n, seed, mode, unordered=False):
        SerialPool.__init__(self, n)
        self.rng = random.Random(seed)
        self.mode = mode
        self.unordered = unordered

    def _schedule(self, ntasks):
        w = max(1, self.n)
        mode = self.mode
        if mode == "reverse":
            chunk = 1
        elif mode == "pathos-like":
            chunk, extra = divmod(ntasks, w * 4)
            chunk = chunk + 1 if extra else max(chunk, 1)
        else:
            chunk = self.rng.randint(1, max(1, ntasks))
        chunks = [list(range(i, min(ntasks, i + chunk))) for i in range(0, ntasks, chunk)]
        workers = [[] for _ in range(w)]
        for ci, ch in enumerate(chunks):
            j = (ci % w) if mode != "random" else self.rng.randrange(w)
            workers[j].append(ch)
        seqs = [[i for ch in wk for i in ch] for wk in workers]
        if mode == "reverse":
            # every worker processes its tasks last-to-first and the completions arrive in reverse task order
            order = list(range(ntasks - 1, -1, -1))
            seqs = [list(reversed(s)) for s in seqs]
            owner = {i: j for j, s in enumerate(seqs) for i in s}
            return seqs, order, owner
        # an interleaving of the workers' sequences
        pos = [0] * w
        order = []
        live = [j for j in range(w) if seqs[j]]
        while live:
            if mode == "last-worker-first":
                j = live[-1]
            else:
                j = self.rng.choice(live)
            order.append(seqs[j][pos[j]])
            pos[j] += 1
            if pos[j] == len(seqs[j]):
                live.remove(j)
        owner = {i: j for j, s in enumerate(seqs) for i in s}
        return seqs, order, owner

    def _run(self, f, xs, completion=False):
        n = len(xs)
        seqs, order, owner = self._schedule(n)
        slots = [None] * n
        done = []
        for i in order:
            slots[i] = f(xs[i])
            done.append(slots[i])
        self.schedules.append({"ntasks": n, "workers": seqs, "order": order})
        return done if (completion or self.unordered) else slots

    def uimap(self, f, xs):
        return iter(self._run(f, list(xs), completion=True))


def make_pool(spec):
    if not spec or spec.get("kind", "serial") == "serial":
        return SerialPool(1)
    return AdversarialPool(spec.get("n", 2), spec.get("seed", 0), spec.get("mode", "random"), spec.get("unordered", False))


# ---------------------------------------------------------------------------------------------------------------
# observation helpers

class CapLogger:
    def __init__(self):
        self.msgs = []

    def _add(self, *a, **k):
        self.msgs.append(" ".join(str(x) for x in a))

    info = warning = error = debug = critical = exception = _add

    def invalid_count(self):
        out = []
        for m in self.msgs:
            mm = re.search(r"(-?\d+)\s+invalid", m) or re.search(r"[Ii]nvalid\D{0,40}?(-?\d+)", m)
            if mm and "samples of invalid" not in m:
                out.append(int(mm.group(1)))
        return out


def read_table(path):
    """TSV with a header containing FeatureA, FeatureB, Score (an unnamed index column may precede them).
    Scores are parsed with float() (round-trip exact), not with pandas' fast parser."""
    if not os.path.exists(path):
        return None
    with open(path, newline="") as f:
        rows = list(csv.reader(f, delimiter="\t"))
    if not rows:
        return []
    hdr = rows[0]
    ia, ib, isc = hdr.index("FeatureA"), hdr.index("FeatureB"), hdr.index("Score")
    return [[r[ia], r[ib], float(r[isc])] for r in rows[1:]]


def frame_rows(df):
    if df is None:
        return None
    return [[str(a), str(b), float(s)] for a, b, s in zip(df["FeatureA"], df["FeatureB"], df["Score"])]


def reset_globals():
    cr.GLOBAL_CARDINALITY_STORAGE.clear()
    cr.GLOBAL_COUNTS_STORAGE.clear()
    cr.GLOBAL_RARE_VALUE_STORAGE.clear()
    cr.GLOBAL_PRIOR_COMB_COUNTS.clear()
    if hasattr(cr, "GLOBAL_PRIOR_FEATURE_COMB_COUNTS"):
        cr.GLOBAL_PRIOR_FEATURE_COMB_COUNTS.clear()
    cr.IGNORED_VALUES.clear()
    random.seed(a=123, version=2)          # as at import of core_ranking
    import numpy as np
    np.random.seed(123)                    # as at import of the scorers


REAL_CBR = getattr(cr, "compute_batch_ranking", None)
REAL_EIM = cr.estimate_importances_minibatches


def run_case(case, cdir, keep=False):
    shutil.rmtree(cdir, ignore_errors=True)
    os.makedirs(os.path.join(cdir, "in"))
    nlines = write_file(case, os.path.join(cdir, "in", "data.csv"))
    out_dir = os.path.join(cdir, "out")
    os.chdir(cdir)
    reset_globals()
    argv = ["--task", "ranking", "--data_path", os.path.join(cdir, "in"), "--data_source", "csv-raw",
            "--output_folder", out_dir, "--minibatch_size", str(case["B"]), "--subsampling", str(case["s"]),
            "--heuristic", case["heuristic"], "--target_ranking_only", case["target_only"],
            "--label_column", case["cols"][-1], "--include_cardinality_in_feature_names", "False",
            "--disable_tqdm", case.get("disable_tqdm", "True"), "--num_threads", str(case.get("num_threads", 1)),
            "--interaction_order", str(case.get("interaction_order", 1)),
            "--combination_number_upper_bound", str(case.get("cap", 2 ** 15)),
            "--include_noise_baseline_features", case.get("noise", "False")] + list(case.get("extra_args", []))
    args, args_src = build_args(argv)
    obs = {"nlines": nlines, "args_source": args_src, "batches": [], "ok": True}
    pool = make_pool(case.get("pool"))
    ckpt = os.path.join(cdir, "ranking_checkpoint_tmp.tsv")
    caplog = CapLogger()
    eim_ret = {}

    def cbr_wrapper(line_tmp_storage, *a, **k):
        # boundary: what the checkpoint holds before this batch is scored = state after the previous batch
        before = read_table(ckpt)
        rec = {"ids": [(r[0] if isinstance(r, (list, tuple)) and len(r) > 0 else None) for r in line_tmp_storage],
               "widths": sorted({len(r) for r in line_tmp_storage}), "ckpt_before": before, "triplets": None}
        obs["batches"].append(rec)
        ret = REAL_CBR(line_tmp_storage, *a, **k)
        try:
            rec["triplets"] = [[str(x), str(y), float(z)] for x, y, z in ret[0].triplet_scores]
        except Exception as e:  # a refactor changed the return shape: the harness falls back to the other observables
            rec["triplets_error"] = "%s: %s" % (type(e).__name__, e)
        return ret

    def eim_wrapper(*a, **k):
        if "logger" in k:
            k["logger"] = caplog
        ret = REAL_EIM(*a, **k)
        eim_ret["ret"] = ret
        eim_ret["ckpt_after"] = read_table(ckpt)
        return ret

    if REAL_CBR is not None:
        cr.compute_batch_ranking = cbr_wrapper
    else:
        obs["wrapper_missing"] = True
    tr.estimate_importances_minibatches = eim_wrapper
    real_pool_factory = getattr(tr, "Pool", None)
    if case.get("pool", {}).get("kind") != "pathos":
        tr.Pool = lambda n: pool
    try:
        if case.get("entry", "task") == "task":
            try:
                tr.outrank_task_conduct_ranking(args)
                obs["exit"] = None
            except SystemExit as e:
                obs["exit"] = "SystemExit(%s)" % (e.code,)
        else:
            info = tr.get_dataset_info(args)
            eim_wrapper(input_file=info.data_path + (".gz" if case.get("gzip") else ""), fw_col_mapping=info.fw_map, column_descriptions=info.column_names,
                        numeric_column_types=info.column_types, args=args, data_encoding=info.encoding,
                        cpu_pool=pool, delimiter=info.col_delimiter, logger=caplog)
            obs["exit"] = "direct"
    except BaseException as e:  # recorded outcome, decided by the harness
        obs["ok"] = False
        obs["error"] = "%s: %s" % (type(e).__name__, e)
        obs["traceback"] = traceback.format_exc()[-2500:]
    finally:
        if REAL_CBR is not None:
            cr.compute_batch_ranking = REAL_CBR
        tr.estimate_importances_minibatches = REAL_EIM
        if real_pool_factory is not None:
            tr.Pool = real_pool_factory
    obs["invalid_logged"] = caplog.invalid_count()
    if "ret" in eim_ret:
        ret = eim_ret["ret"]
        try:
            obs["grouped"] = frame_rows(ret[1])
        except Exception as e:
            obs["grouped_error"] = "%s: %s" % (type(e).__name__, e)
        try:
            cnt = ret[8].get(case["cols"][0])
            obs["consumed"] = None if cnt is None else {str(k): int(v) for k, v in cnt.default_counter.items()}
        except Exception as e:
            obs["consumed_error"] = "%s: %s" % (type(e).__name__, e)
        obs["ckpt_after"] = eim_ret.get("ckpt_after")
    obs["pairwise"] = read_table(os.path.join(out_dir, "pairwise_ranks.tsv"))
    # the sampler's export: combination_estimation_counts.json as the task wrote it, and the counter the function returned
    try:
        pj = os.path.join(out_dir, "combination_estimation_counts.json")
        obs["comb_counts_json"] = json.load(open(pj)) if os.path.exists(pj) else None
    except Exception as e:
        obs["comb_counts_json_error"] = "%s: %s" % (type(e).__name__, e)
    if "ret" in eim_ret:
        try:
            obs["comb_counts_ret"] = [[list(k) if isinstance(k, tuple) else k, int(v)] for k, v in eim_ret["ret"][7].items()]
        except Exception as e:
            obs["comb_counts_ret_error"] = "%s: %s" % (type(e).__name__, e)
    obs["ckpt_left"] = os.path.exists(ckpt)
    obs["schedules"] = getattr(pool, "schedules", [])[:64]
    os.chdir(os.path.dirname(cdir))
    if not keep:
        shutil.rmtree(cdir, ignore_errors=True)
    return obs


def clean(o):
    if isinstance(o, float):
        if math.isnan(o):
            return "nan"
        if math.isinf(o):
            return "inf" if o > 0 else "-inf"
        return o
    if isinstance(o, dict):
        return {k: clean(v) for k, v in o.items()}
    if isinstance(o, (list, tuple)):
        return [clean(v) for v in o]
    return o


