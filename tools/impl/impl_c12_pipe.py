"""C12, pipeline level: transformed columns through compute_batch_ranking and through the ranking task
(under /venv/bin/python, PYTHONPATH=$OUTRANK_REPO).  Reuses the args builder / serial pool of tools/impl/impl_c08_lib.py.

stdin:  {"scratch": dir, "cases": [{"level": "batch" | "task", "columns": [name, ...], "rows": [[cell, ...], ...],
                                    "numeric": [name, ...], "label": name, "transformers": str, "focus": str | null}]}
stdout: @@RESULT {"results": [{"ok", "error", "columns": [names handed to mixed_rank_graph]            (level batch)
                               "ranked": [names occurring in pairwise_ranks.tsv], "transformers_seen": value of
                               args.transformers when compute_batch_ranking ran                      (level task)}]}
"""
import json
import os
import shutil
import sys
import traceback
import warnings

payload = json.load(sys.stdin)
warnings.simplefilter("ignore")
sys.path.insert(0, os.path.dirname(os.path.abspath(__file__)))
import impl_c08_lib as L  # noqa: E402  (imports outrank)
import logging  # noqa: E402

import numpy as np  # noqa: E402

cr, tr = L.cr, L.tr
np.seterr(all="ignore")


class _Pbar:
    def set_description(self, *a, **k):
        pass

    def update(self, *a, **k):
        pass


def base_argv(case, extra):
    argv = ["--task", "ranking", "--heuristic", case.get("heuristic", "MI-numba-randomized"),
            "--label_column", case["label"], "--transformers", case["transformers"],
            "--include_cardinality_in_feature_names", "False", "--disable_tqdm", "True", "--num_threads", "1",
            "--subsampling", "1", "--minibatch_size", str(len(case["rows"])),
            "--target_ranking_only", "True"] + extra
    if case.get("focus"):
        argv += ["--feature_set_focus", case["focus"]]
    return argv


def run_batch(case):
    args, _ = L.build_args(base_argv(case, []))
    seen = {}
    real = cr.mixed_rank_graph

    def capture(df, *a, **k):
        seen["columns"] = [str(c) for c in df.columns]
        seen["rows"] = int(df.shape[0])
        return real(df, *a, **k)

    cr.mixed_rank_graph = capture
    try:
        L.reset_globals()
        ret = cr.compute_batch_ranking([list(r) for r in case["rows"]], set(case["numeric"]), args, L.SerialPool(1),
                                       list(case["columns"]), logging, _Pbar())
        trip = ret[0].triplet_scores
        seen["ranked"] = sorted({str(a) for a, b, _ in trip} | {str(b) for a, b, _ in trip})
    finally:
        cr.mixed_rank_graph = real
    return seen


def run_task(case, cdir):
    shutil.rmtree(cdir, ignore_errors=True)
    os.makedirs(os.path.join(cdir, "in"))
    with open(os.path.join(cdir, "in", "dataset_desc.json"), "w") as f:
        json.dump({"data_features": [{"name": c, "type": "Float" if c in case["numeric"] else "String"}
                                     for c in case["columns"]]}, f)
    with open(os.path.join(cdir, "in", "data.csv"), "w", encoding="latin1", newline="") as f:
        f.write(",".join(case["columns"]) + "\n")
        for r in case["rows"]:
            f.write(",".join(r) + "\n")
    out_dir = os.path.join(cdir, "out")
    args, _ = L.build_args(base_argv(case, ["--data_path", os.path.join(cdir, "in"), "--data_source", "ob-csv",
                                            "--output_folder", out_dir]))
    seen = {"transformers_seen": []}
    real_cbr = cr.compute_batch_ranking
    real_pool = getattr(tr, "Pool", None)

    def cbr(line_tmp_storage, numeric_column_types, a, *rest, **k):
        seen["transformers_seen"].append(str(getattr(a, "transformers", None)))
        return real_cbr(line_tmp_storage, numeric_column_types, a, *rest, **k)

    cr.compute_batch_ranking = cbr
    tr.Pool = lambda n: L.SerialPool(1)
    cwd = os.getcwd()
    os.chdir(cdir)
    try:
        L.reset_globals()
        try:
            tr.outrank_task_conduct_ranking(args)
        except SystemExit as e:
            seen["exit"] = str(e.code)
    finally:
        os.chdir(cwd)
        cr.compute_batch_ranking = real_cbr
        if real_pool is not None:
            tr.Pool = real_pool
    tab = L.read_table(os.path.join(out_dir, "pairwise_ranks.tsv"))
    seen["ranked"] = None if tab is None else sorted({r[0] for r in tab} | {r[1] for r in tab})
    shutil.rmtree(cdir, ignore_errors=True)
    return seen


logging.disable(logging.CRITICAL) if not os.environ.get("C12_DEBUG") else None
out = []
scratch = payload["scratch"]
os.makedirs(scratch, exist_ok=True)
for i, case in enumerate(payload["cases"]):
    try:
        res = run_batch(case) if case["level"] == "batch" else run_task(case, os.path.join(scratch, "t%d" % i))
        res["ok"] = True
    except BaseException as e:  # recorded outcome, judged by the harness
        res = {"ok": False, "error": "%s: %s" % (type(e).__name__, e), "traceback": traceback.format_exc()[-1500:]}
    out.append(res)
shutil.rmtree(scratch, ignore_errors=True)
sys.stdout.write("\n@@RESULT " + json.dumps({"results": out}) + "\n")
