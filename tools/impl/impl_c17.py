"""Runs the real rank_features_3MR (and, for 'pipeline' cases, the real ranking task that builds its
dictionaries) under /venv/bin/python with PYTHONPATH=$OUTRANK_REPO.  JSON on stdin, one @@RESULT line."""
import json
import sys

payload = json.load(sys.stdin)
from outrank.algorithms.importance_estimator import rank_features_3MR  # noqa: E402


def frame_rows(df):
    """(feature, rank) rows of the returned data frame; columns by name, else by position."""
    cols = list(df.columns)
    fcol = "Feature" if "Feature" in cols else cols[0]
    rcol = "3MR_Ranking" if "3MR_Ranking" in cols else cols[1]
    rows = []
    for f, r in zip(df[fcol].tolist(), df[rcol].tolist()):
        try:
            ri = int(r) if float(r) == int(r) else None
        except Exception:
            ri = None
        rows.append([f if isinstance(f, str) else None, ri])
    return rows


# ---------------------------------------------------------------------------------------------------------------
# pipeline cases: the real ranking task (heuristic MI-numba-3mr) on a generated csv; observed are the triplets it wrote,
# the dictionaries it handed to rank_features_3MR (harness-side wrapper around the name task_ranking uses) and 3mr_ranks.tsv

_PIPE = {}


class _Res:
    def __init__(self, v):
        self.v = v

    def ready(self):
        return True

    def get(self, timeout=None):
        return self.v


class SerialPool:
    def __init__(self, n=1):
        pass

    def __enter__(self):
        return self

    def __exit__(self, *a):
        return False

    def close(self):
        pass

    def join(self):
        pass

    def clear(self):
        pass

    def amap(self, f, xs):
        return _Res([f(x) for x in xs])

    def map(self, f, xs):
        return [f(x) for x in xs]

    def imap(self, f, xs):
        return iter([f(x) for x in xs])


def build_args(argv):
    """The namespace exactly as outrank/__main__.py builds it (its parser lives inside main(): capture it)."""
    import argparse
    import outrank.__main__ as M

    class _Stop(Exception):
        pass
    got = {}
    orig = argparse.ArgumentParser.parse_args

    def fake(self, *a, **k):
        got["ns"] = orig(self, argv)
        raise _Stop()
    argparse.ArgumentParser.parse_args = fake
    try:
        M.main()
    except _Stop:
        pass
    finally:
        argparse.ArgumentParser.parse_args = orig
    return got["ns"]


def write_csv(case, path, part=0):
    import random
    rng = random.Random(case["dataseed"] + 7919 * part)
    cols = case["cols"]
    k = len(cols) - 1
    with open(path, "w") as f:
        f.write(",".join(cols) + "\n")
        for _ in range(case["nrows"]):
            vals = [rng.randint(0, case["cards"][j] - 1) for j in range(k)]
            for (j, src) in case.get("copies", []):          # column j follows column src most of the time
                if rng.random() < 0.8:
                    vals[j] = vals[src] % case["cards"][j]
            sig = sum(vals[j] for j in case["signal"])
            y = (sig % 2) if rng.random() < 0.8 else rng.randint(0, 1)
            f.write(",".join("v%d" % v for v in vals) + ",%d\n" % y)


def read_tsv(path):
    import csv
    import os
    if not os.path.exists(path):
        return None
    with open(path, newline="") as f:
        return list(csv.reader(f, delimiter="\t"))


def run_pipeline(case, idx):
    import logging
    import os
    import random
    import shutil
    if "tr" not in _PIPE:
        import outrank.core_ranking as cr
        import outrank.task_ranking as tr
        logging.getLogger().setLevel(logging.ERROR)
        logging.getLogger("syn-logger").setLevel(logging.ERROR)
        _PIPE["tr"], _PIPE["cr"] = tr, cr
        _PIPE["real"] = tr.rank_features_3MR
    tr, cr = _PIPE["tr"], _PIPE["cr"]
    base = os.path.join(os.environ.get("OUTRANK_VERIF_DIR", "/verif"), ".cache", "c17", str(os.getpid()), "case%d" % idx)
    shutil.rmtree(base, ignore_errors=True)
    nparts = int(case.get("parts", 1))
    if nparts <= 1:
        os.makedirs(os.path.join(base, "in"))
        write_csv(case, os.path.join(base, "in", "data.csv"))
        data_path = os.path.join(base, "in")
    else:
        # several input files: --data_path is a glob (task_ranking iterates glob.glob(data_path)); csv-raw reads the header
        # from the literal path, so a directory with the literal name holds a header-only copy
        for k in range(nparts):
            os.makedirs(os.path.join(base, "p%d" % (k + 1)))
            write_csv(case, os.path.join(base, "p%d" % (k + 1), "data.csv"), part=k)
        lit = "p[%s]" % "".join(str(k + 1) for k in range(nparts))
        os.makedirs(os.path.join(base, lit))
        write_csv(dict(case, nrows=0), os.path.join(base, lit, "data.csv"))
        data_path = os.path.join(base, lit)
    old = os.getcwd()
    os.chdir(base)
    for g in ("GLOBAL_CARDINALITY_STORAGE", "GLOBAL_COUNTS_STORAGE", "GLOBAL_RARE_VALUE_STORAGE", "GLOBAL_PRIOR_COMB_COUNTS",
              "IGNORED_VALUES"):
        if hasattr(cr, g):
            getattr(cr, g).clear()
    random.seed(a=123, version=2)
    argv = ["--task", "ranking", "--data_path", data_path, "--data_source", "csv-raw",
            "--output_folder", os.path.join(base, "out"), "--minibatch_size", str(case["minibatch"]), "--subsampling", "1",
            "--heuristic", case["heuristic"], "--target_ranking_only", "False", "--label_column", case["cols"][-1],
            "--include_cardinality_in_feature_names", "False", "--disable_tqdm", "True", "--num_threads", "1",
            "--interaction_order", str(case["interaction_order"])]
    cap = {}

    def wrapper(*a, **k):
        cap["args"] = a
        cap["kwargs"] = k
        return _PIPE["real"](*a, **k)

    real_eim = tr.estimate_importances_minibatches
    cap["frames"] = []

    def eim_wrapper(*a, **k):
        ret = real_eim(*a, **k)
        try:                                  # the per-file triplet frame, in the order task_ranking concatenates them
            df = ret[1]
            if df is not None:
                cap["frames"].append([[str(x), str(y), float(z).hex()] for x, y, z in
                                      zip(df.iloc[:, 0].tolist(), df.iloc[:, 1].tolist(), df.iloc[:, 2].tolist())])
        except Exception:
            cap["frames"] = None
        return ret
    res = {"ok": True}
    try:
        args = build_args(argv)
        tr.Pool = SerialPool
        tr.rank_features_3MR = wrapper
        tr.estimate_importances_minibatches = eim_wrapper
        try:
            tr.outrank_task_conduct_ranking(args)
        except SystemExit as e:
            res["exit"] = str(e)
        finally:
            tr.rank_features_3MR = _PIPE["real"]
            tr.estimate_importances_minibatches = real_eim
        trip = read_tsv(os.path.join(base, "out", "pairwise_ranks.tsv"))
        ranks = read_tsv(os.path.join(base, "out", "3mr_ranks.tsv"))
        res["triplets"] = None if trip is None else [[r[0], r[1], float(r[2]).hex()] for r in trip[1:]]
        res["ranks"] = None if ranks is None else [[r[0], r[1]] for r in ranks[1:]]
        res["triplets_in_code_order"] = None if not cap.get("frames") else [t for fr in cap["frames"] for t in fr]
        if "args" in cap and len(cap["args"]) >= 3 and not cap["kwargs"]:
            def fl(x):
                x = float(x)
                return x.hex() if x == x and abs(x) != float("inf") else "nan"
            rel, red, rln = cap["args"][:3]
            res["dicts"] = {"rel": [[k, fl(v)] for k, v in rel.items()],
                            "red": [[k[0], k[1], fl(v)] for k, v in red.items()],
                            "rln": [[k[0], k[1], fl(v)] for k, v in rln.items()],
                            "extra_args": len(cap["args"]) - 3}
        else:
            res["dicts"] = None
    except Exception as e:
        import traceback
        res = {"ok": False, "error": "%s: %s" % (type(e).__name__, e), "trace": traceback.format_exc()[-1500:]}
    os.chdir(old)
    shutil.rmtree(base, ignore_errors=True)
    return res


out = []
for _i, case in enumerate(payload["cases"]):
    if case.get("kind") == "pipeline":
        out.append(run_pipeline(case, _i))
        continue
    names = case["names"]
    den = float(case["den"])

    def val(k):          # an integer k means k/den, a string is a float.hex() literal (exact)
        return float.fromhex(k) if isinstance(k, str) else k / den
    rel = {names[i]: val(k) for i, k in case["rel"]}
    red = {(names[i], names[j]): val(k) for i, j, k in case["red"]}
    rln = {(names[i], names[j]): val(k) for i, j, k in case["rln"]}
    try:
        if case.get("defaults"):
            df = rank_features_3MR(rel, red, rln)
        else:
            df = rank_features_3MR(rel, red, rln, case["strategy"],
                                   case["alpha"][0] / case["alpha"][1], case["beta"][0] / case["beta"][1])
        out.append({"ok": True, "rows": frame_rows(df)})
    except Exception as e:  # an outcome, decided by the harness
        out.append({"ok": False, "error": "%s: %s" % (type(e).__name__, e)})
try:
    import os
    import shutil
    shutil.rmtree(os.path.join(os.environ.get("OUTRANK_VERIF_DIR", "/verif"), ".cache", "c17", str(os.getpid())), ignore_errors=True)
except Exception:
    pass
print("@@RESULT " + json.dumps({"results": out}))
