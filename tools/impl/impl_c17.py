"""Runs the real rank_features_3MR (and, for 'pipeline' cases, the real ranking task that builds its
dictionaries) under /venv/bin/python with PYTHONPATH=$OUTRANK_REPO.  JSON on stdin, one @@RESULT line."""
import json
import sys

payload = json.load(sys.stdin)
from outrank.algorithms.importance_estimator import rank_features_3MR  # noqa: E402


def frame_rows(df):
    """(feature, rank) rows of the returned data frame; columns by name, else by position."""
    cols = list(df.columns)
    fcol = "Feature" if "Feature" in cols else cols[0]
    rcol = "3MR_Ranking" if "3MR_Ranking" in cols else cols[1]
    rows = []
    for f, r in zip(df[fcol].tolist(), df[rcol].tolist()):
        try:
            ri = int(r) if float(r) == int(r) else None
        except Exception:
            ri = None
        rows.append([f if isinstance(f, str) else None, ri])
    return rows


out = []
for case in payload["cases"]:
    names = case["names"]
    den = float(case["den"])
    rel = {names[i]: k / den for i, k in case["rel"]}
    red = {(names[i], names[j]): k / den for i, j, k in case["red"]}
    rln = {(names[i], names[j]): k / den for i, j, k in case["rln"]}
    try:
        if case.get("defaults"):
            df = rank_features_3MR(rel, red, rln)
        else:
            df = rank_features_3MR(rel, red, rln, case["strategy"],
                                   case["alpha"][0] / case["alpha"][1], case["beta"][0] / case["beta"][1])
        out.append({"ok": True, "rows": frame_rows(df)})
    except Exception as e:  # an outcome, decided by the harness
        out.append({"ok": False, "error": "%s: %s" % (type(e).__name__, e)})
print("@@RESULT " + json.dumps({"results": out}))
