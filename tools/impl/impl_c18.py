"""Runs the real outrank_task_result_summary on generated pairwise_ranks.tsv files
(under /venv/bin/python, PYTHONPATH=$OUTRANK_REPO).  JSON on stdin, one @@RESULT line.
Each case: {"rows": [[FeatureA, FeatureB, "score text"], ...], "calls": [{"label", "heuristic", "order", "tldr"}, ...]}
(or the single-call form with label / heuristic / order at the top, tldr False).  All calls of a case run one after the other
on the SAME output folder (pairwise_ranks.tsv written once, dated into the past as after a real ranking run); the two summary
files are read back after every call."""
import io
import json
import os
import shutil
import sys
import types
import contextlib

payload = json.load(sys.stdin)
from outrank.task_summary import outrank_task_result_summary  # noqa: E402

BASE = os.path.join(os.environ.get("OUTRANK_VERIF_DIR", "/verif"), ".cache", "c18", str(os.getpid()))


def parser_namespace(argv):
    """The namespace as outrank/__main__.py builds it (so fields a refactor starts to read are present); None if unreachable."""
    try:
        import argparse
        import outrank.__main__ as M

        class _Stop(Exception):
            pass
        got = {}
        orig = argparse.ArgumentParser.parse_args

        def fake(self, *a, **k):
            got["ns"] = orig(self, argv)
            raise _Stop()
        argparse.ArgumentParser.parse_args = fake
        try:
            M.main()
        except _Stop:
            pass
        finally:
            argparse.ArgumentParser.parse_args = orig
        return got.get("ns")
    except BaseException:
        return None


USE_PARSER = payload.get("use_parser", True)
_proto = parser_namespace(["--task", "ranking_summary"]) if USE_PARSER else None


def make_args(case, folder):
    if _proto is not None:
        ns = types.SimpleNamespace(**vars(_proto))
    else:
        ns = types.SimpleNamespace()
    ns.task = "ranking_summary"
    ns.output_folder = folder
    ns.label_column = case["label"]
    ns.heuristic = case["heuristic"]
    ns.interaction_order = int(case["order"])
    ns.tldr = case.get("tldr", False)      # 'True' / 'False' (the CLI passes strings: both truthy), True, False, ''
    return ns


def read_table(path):
    """Rows of a tab separated file as written by DataFrame.to_csv(sep='\\t') (csv quoting: a field containing a quote, a tab or a
    line break is quoted, quotes doubled); None when the file does not exist."""
    if not os.path.exists(path):
        return None
    import csv
    with open(path, encoding="utf8", newline="") as f:
        recs = list(csv.reader(f, delimiter="\t", quotechar='"', doublequote=True))
    if not recs:
        return {"header": [], "rows": []}
    return {"header": recs[0], "rows": [r for r in recs[1:] if r != []]}


def write_triplets(path, rows):
    """pairwise_ranks.tsv as the ranking task writes it: triplets.to_csv(path, sep='\\t', index=False), i.e. the csv module with
    minimal quoting and '\\n' line ends; the score text is kept verbatim (it never needs quoting)."""
    import csv
    with open(path, "w", encoding="utf8", newline="") as f:
        w = csv.writer(f, delimiter="\t", quotechar='"', doublequote=True, quoting=csv.QUOTE_MINIMAL, lineterminator="\n")
        w.writerow(["FeatureA", "FeatureB", "Score"])
        for a, b, sc in rows:
            w.writerow([a, b, sc])


out = []
for i, case in enumerate(payload["cases"]):
    folder = os.path.join(BASE, "case%d" % i)
    shutil.rmtree(folder, ignore_errors=True)
    os.makedirs(folder)
    write_triplets(os.path.join(folder, "pairwise_ranks.tsv"), case["rows"])
    tp = os.path.join(folder, "pairwise_ranks.tsv")
    try:
        past = os.path.getmtime(tp) - 60.0
        os.utime(tp, (past, past))
    except OSError:
        pass
    calls = case.get("calls") or [case]
    results = []
    for call in calls:
        res = {"ok": True}
        try:
            with contextlib.redirect_stdout(io.StringIO()):
                outrank_task_result_summary(make_args(call, folder))
            res["singles"] = read_table(os.path.join(folder, "feature_singles.tsv"))
            res["aggregated"] = read_table(os.path.join(folder, "feature_singles_aggregated.tsv"))
        except Exception as e:  # an outcome, decided by the harness
            res = {"ok": False, "error": "%s: %s" % (type(e).__name__, e)}
        results.append(res)
    res = {"calls": results}
    out.append(res)
    shutil.rmtree(folder, ignore_errors=True)
shutil.rmtree(BASE, ignore_errors=True)
print("@@RESULT " + json.dumps({"results": out}))
