"""C04 worker: a long-lived child process that runs the real subsampled estimator on one case per input line.

Started by impl_c04.py under /venv/bin/python with PYTHONPATH=$OUTRANK_REPO.  Protocol: prints `@@READY` after
the (expensive) import, then for every JSON line on stdin prints one line `@@R <json>`.

A request is {"id", "Y", "X", "r", "c", "poison": <double or null>, "Y2": <list or null>}, or, for the SCALE families,
{"id", "scale": {generator parameters incl. "r", "c", "reps"}, "poison"}: the arrays are generated here by
impl_c04_npmodel.gen_scale, the calls are repeated `reps` times, and the arrays returned by stratified_subsampling are
summarised (length, sha1, per-value counts, head, tail) instead of shipped.  The number of numba threads is never restricted.  Before every call into the
numba code the malloc free lists are poisoned: many chunks of 16..4096 bytes and of sizes around the index
buffer's size are malloc'ed through ctypes, filled with the given double and freed again, so that a later
`np.empty(...)` inside the compiled code finds that pattern as its "uninitialised" contents.  With poison = null
nothing is done (plain run).  A segfault kills this process; the parent records that as the outcome of the case.
"""
import ctypes
import json
import sys

import numpy as np

from outrank.algorithms.feature_ranking import ranking_mi_numba as m

_libc = ctypes.CDLL(None)
_libc.malloc.restype = ctypes.c_void_p
_libc.malloc.argtypes = [ctypes.c_size_t]
_libc.free.restype = None
_libc.free.argtypes = [ctypes.c_void_p]
_bufs = {}


def poison(val, target_bytes):
    if val is None:
        return
    sizes = list(range(16, 4097, 16))
    sizes += [target_bytes + d for d in range(-128, 769, 16) if target_bytes + d > 4096]
    mx = max(sizes)
    key = (val, mx // 8 + 2)
    if key not in _bufs:
        _bufs.clear()
        _bufs[key] = (ctypes.c_double * key[1])(*([val] * key[1]))
    buf = _bufs[key]
    ptrs = []
    for _ in range(3):
        for s in sizes:
            p = _libc.malloc(s)
            if p:
                ctypes.memmove(p, buf, s)
                ptrs.append(p)
    for p in ptrs:
        _libc.free(p)


def fl(x):
    x = float(x)
    return x if x == x and abs(x) != float("inf") else repr(x)


def run_case(q):
    scale = q.get("scale")
    pv = q.get("poison")
    out = {"id": q["id"]}
    if scale is not None:           # big input given by generator parameters; arrays are summarised, not shipped
        import numba
        import impl_c04_npmodel as nm
        Y, X = nm.gen_scale(scale)
        r = np.float32(scale["r"])
        c = bool(scale["c"])
        target = min(8 * int(float(r) * len(X)), 1 << 18)      # larger blocks come straight from mmap (zero pages)
        f_values = m.numba_unique(X)[0]
        reps = []
        for _ in range(int(scale.get("reps", 3))):
            poison(pv, target)
            ys, xs = m.stratified_subsampling(Y, X, r, f_values)
            rep = {"sum": nm.summary(ys, xs)}
            del ys, xs
            poison(pv, target)
            rep["score"] = fl(m.mutual_info_estimator_numba(Y, X, r, c))
            reps.append(rep)
        out["reps"] = reps
        out["numba_threads"] = int(numba.get_num_threads())
        return out
    if q.get("entry") is not None:
        return run_entry(q, out, pv)
    Y = np.array(q["Y"], dtype=np.int32)
    X = np.array(q["X"], dtype=np.int32)
    r = np.float32(q["r"])
    c = bool(q["c"])
    target = 8 * int(float(r) * len(X))
    f_values = m.numba_unique(X)[0]
    poison(pv, target)
    ys, xs = m.stratified_subsampling(Y, X, r, f_values)
    out["ys"] = [int(v) for v in ys]
    out["xs"] = [int(v) for v in xs]
    poison(pv, target)
    out["score"] = fl(m.mutual_info_estimator_numba(Y, X, r, c))
    if q.get("Y2") is not None:
        Y2 = np.array(q["Y2"], dtype=np.int32)
        poison(pv, target)
        out["score2"] = fl(m.mutual_info_estimator_numba(Y2, X, r, c))
    return out


def run_entry(q, out, pv):
    """the Python / CLI path: importance_estimator.numba_mi or conduct_feature_ranking with the ratio as the user gave it
    (a Python float, or an np.float32 object); vectors as the pipeline passes them (int64 codes, feature optionally as an
    (n, 1) column)"""
    from types import SimpleNamespace
    from outrank.algorithms import importance_estimator as ie
    e = q["entry"]
    ratio = np.float32(e["ratio"]) if e.get("ratio_kind") == "f32" else float(e["ratio"])
    X = np.array(q["X"], dtype=np.int64)
    target = 8 * int(min(float(ratio), 1.0) * len(X))

    def call(Yl):
        vf = np.array(Yl, dtype=np.int64)
        if e.get("shape") == "col":
            vf = vf.reshape(-1, 1)
        poison(pv, target)
        if e.get("via") == "numba_mi":
            return ie.numba_mi(vf, X.copy(), e["heuristic"], ratio)
        args = SimpleNamespace(heuristic=e["heuristic"], mi_stratified_sampling_ratio=ratio)
        return ie.conduct_feature_ranking(vf, X.copy(), args)
    out["score"] = fl(call(q["Y"]))
    if q.get("Y2") is not None:
        out["score2"] = fl(call(q["Y2"]))
    return out


def main():
    sys.stdout.write("@@READY\n")
    sys.stdout.flush()
    for line in sys.stdin:
        line = line.strip()
        if not line:
            continue
        q = json.loads(line)
        try:
            out = run_case(q)
        except Exception as e:  # an exception is an outcome of the case, decided by the harness
            out = {"id": q.get("id"), "error": "%s: %s" % (type(e).__name__, e)}
        sys.stdout.write("@@R " + json.dumps(out) + "\n")
        sys.stdout.flush()


if __name__ == "__main__":
    main()
