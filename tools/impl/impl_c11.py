"""Runs the real feature constructors of outrank.core_ranking on generated frames
(under /venv/bin/python, PYTHONPATH=$OUTRANK_REPO).
stdin: {"cases": [{"kind": "multivalue"|"sub"|"combined"|"transform"|"noise"|"batch", "names", "rows", ...}]}
stdout: one line  @@RESULT {"results": [...]}  with, per case, the returned frame read by position."""
import json
import sys
import types

payload = json.load(sys.stdin)
import numpy as np  # noqa: E402
import pandas as pd  # noqa: E402
import outrank.core_ranking as cr  # noqa: E402


class FakeBar:
    def set_description(self, *a, **k):
        pass

    def update(self, *a, **k):
        pass


class FakeLog:
    def info(self, *a, **k):
        pass

    warning = debug = error = info


class _Res:
    def __init__(self, v):
        self.v = v

    def ready(self):
        return True

    def get(self):
        return self.v


class FakePool:
    def __enter__(self):
        return self

    def __exit__(self, *a):
        return False

    def amap(self, f, xs):
        return _Res([f(x) for x in xs])


def cell(v):
    if isinstance(v, str):
        return v
    return str(v)


def read_frame(out, labels=None):
    """the frame by position; cells are shown through str() for the Coq side, but every column holding a cell that is not a
    Python str is listed (with the type names) in nonstr_columns, which the harness judges"""
    names = [str(c) for c in out.columns]
    cols = []
    nonstr = {}
    for j in range(out.shape[1]):
        vals = out.iloc[:, j].tolist()
        bad = sorted({type(v).__name__ for v in vals if not isinstance(v, str)})
        if bad:
            nonstr[str(j)] = [names[j], bad]
        cols.append([cell(v) for v in vals])
    expect = list(range(len(out.index))) if labels is None else list(labels)
    index_ok = list(out.index) == expect
    return {"names": names, "cols": cols, "index_ok": bool(index_ok), "nrows": int(out.shape[0]),
            "nonstr_columns": [[int(j)] + v for j, v in nonstr.items()]}


def reset_globals():
    for nm in dir(cr):                       # the known module state and any further GLOBAL_* container a rewrite may add
        if nm.startswith("GLOBAL_"):
            g = getattr(cr, nm)
            if hasattr(g, "clear"):
                g.clear()
    if hasattr(cr, "IGNORED_VALUES"):
        cr.IGNORED_VALUES.clear()


class _Captured(Exception):
    pass


def cli_defaults():
    """defaults of every option outrank/__main__.py's parser defines (num_threads=8, ...); {} if the entry point changes shape"""
    import argparse
    try:
        import outrank.__main__ as m
        orig = argparse.ArgumentParser.parse_args

        def grab(self, *a, **k):
            raise _Captured(self)
        argparse.ArgumentParser.parse_args = grab
        try:
            m.main()
        except _Captured as c:
            parser = c.args[0]
        finally:
            argparse.ArgumentParser.parse_args = orig
        return {a.dest: a.default for a in parser._actions if a.dest != "help"}
    except BaseException:
        return {}


CLI_DEFAULTS = cli_defaults()


def base_args(case):
    ns = types.SimpleNamespace(**CLI_DEFAULTS)
    for k, v in vars(explicit_args(case)).items():
        setattr(ns, k, v)
    return ns


def explicit_args(case):
    return types.SimpleNamespace(
        label_column=case.get("label", "label"),
        interaction_order=case.get("order", 1),
        combination_number_upper_bound=case.get("cap", 2 ** 20),
        reference_model_JSON="",
        heuristic=case.get("heuristic", "MI-numba-randomized"),
        explode_multivalue_features=case.get("explode", "False"),
        missing_value_symbols=case.get("missing", ",{}"),
        subfeature_mapping=case.get("mapping", "False"),
        transformers=case.get("transformers", "none"),
        include_noise_baseline_features=case.get("noise", "False"),
        feature_set_focus=None,
        target_ranking_only="False",
        task="ranking",
        max_unique_hist_constraint=30000,
        mi_stratified_sampling_ratio=1.0,
        rare_value_count_upper_bound=1,
        disable_tqdm="True",
    )


def run_case(case):
    keep = bool(case.get("keep_state"))     # histories: consecutive batches of one process share the module state
    if not keep:
        reset_globals()
    np.random.seed(case.get("np_seed", 0))
    # default: the RangeIndex compute_batch_ranking builds; "index" (direct constructor probes only): other row labels
    df = pd.DataFrame(case["rows"], columns=case["names"], index=case.get("index"))
    labels = list(df.index)
    args = base_args(case)
    kind = case["kind"]
    if kind == "multivalue":
        return read_frame(cr.compute_expanded_multivalue_features(df, FakeLog(), args, FakeBar()), labels)
    if kind == "sub":
        return read_frame(cr.compute_subfeatures(df, FakeLog(), args, FakeBar()), labels)
    if kind == "combined":
        return read_frame(cr.compute_combined_features(df, args, FakeBar(), bool(case.get("is3mr", False))), labels)
    if kind == "transform":
        return read_frame(cr.enrich_with_transformations(df, set(case["numeric"]), FakeLog(), args), labels)
    if kind == "noise":
        return read_frame(cr.include_noisy_features(df, FakeLog(), args), labels)
    if kind == "batch":
        o = {}
        numeric = set(case.get("numeric", []))
        # oracle answer for the model: what the transformer appends to this frame (deterministic)
        if args.transformers != "none":
            t = read_frame(cr.enrich_with_transformations(df.copy(), numeric, FakeLog(), args))
            nd = len(case["names"])
            o["transform_new"] = {"names": t["names"][nd:], "cols": t["cols"][nd:]}
        captured = {}
        orig = getattr(cr, "mixed_rank_graph", None)

        def wrapper(input_dataframe, *a, **k):
            try:
                captured["frame"] = read_frame(input_dataframe)
            except Exception as e:  # the capture must never disturb the run
                captured["error"] = repr(e)
            return orig(input_dataframe, *a, **k)

        if orig is not None:
            cr.mixed_rank_graph = wrapper
        try:
            if not keep:
                reset_globals()
            np.random.seed(case.get("np_seed", 0))
            res = cr.compute_batch_ranking([list(r) for r in case["rows"]], numeric, args, FakePool(),
                                           list(case["names"]), FakeLog(), FakeBar())
        finally:
            if orig is not None:
                cr.mixed_rank_graph = orig
        summary = res[0]
        names = set()
        for t3 in summary.triplet_scores:
            names.add(str(t3[0]))
            names.add(str(t3[1]))
        o["summary_names"] = sorted(names)
        o["captured"] = captured.get("frame")
        o["capture_error"] = captured.get("error")
        return o
    raise ValueError("unknown kind %r" % kind)


out = []
for case in payload["cases"]:
    try:
        o = run_case(case)
        o["ok"] = True
        out.append(o)
    except Exception as e:  # recorded outcome, decided by the harness
        import traceback
        out.append({"ok": False, "error": "%s: %s" % (type(e).__name__, e), "tb": traceback.format_exc()[-2000:]})
reset_globals()
print("@@RESULT " + json.dumps({"results": out}))
