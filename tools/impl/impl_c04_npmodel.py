"""C04 — vectorised numpy transcription of the Coq model (coq/MI/Subsample.v), used to judge inputs that are too big
to be evaluated inside Coq, plus the deterministic generator of those inputs.

Closed forms transcribed (theorems of coq/Props/C04.v):
  sampled_indices  (C04_quota, C04_sampled_indices, C04_prefix_rows): quota = floor(floor(r*n) / #values) over exact
                   integers; for the distinct values of X in increasing order the first quota positions carrying that
                   value; all rows when the quota is 0;
  terms            (C04_entry_spec / terms_spec): class counts of the sampled Y; per stratum of the ORIGINAL X with
                   count <> 1: (original count, non-zero class counts among the sampled rows of that stratum, non-zero
                   class counts of the displaced rows Y'[(p + count) mod len(sample)]); flag = c and not array_equal.
This file is NOT trusted on its own word: every run of ./check C04 evaluates it on all small cases of that run and holds
the result against the Coq model (obligation "numpy transcription = Coq model").
"""
import hashlib
from fractions import Fraction

import numpy as np


def sampled_indices(X, r):
    n = len(X)
    fs = (r.numerator * n) // r.denominator
    vals, counts = np.unique(X, return_counts=True)
    q = fs // len(vals) if len(vals) else 0
    if q == 0:
        return q, np.arange(n, dtype=np.int64), vals, counts
    order = np.argsort(X, kind="stable")
    starts = np.cumsum(counts) - counts
    rank = np.arange(n, dtype=np.int64) - np.repeat(starts, counts)
    return q, order[rank < q], vals, counts


def _per_stratum(gid, cls, keep_pos, C, kept):
    key = gid[keep_pos].astype(np.int64) * C + cls[keep_pos].astype(np.int64)
    uk, uc = np.unique(key, return_counts=True)
    g = uk // C
    lo = np.searchsorted(g, kept, "left")
    hi = np.searchsorted(g, kept, "right")
    return [uc[a:b].tolist() for a, b in zip(lo, hi)]


def model(Y, X, r, c):
    """-> (quota, idx, terms) with terms = [n, classes, [[cnt, real, spoof], ...], corr, [num, den]] (zeros dropped, as enc_terms)"""
    n = len(X)
    q, idx, vals, counts = sampled_indices(X, r)
    if not (r < 1):                      # entry_indices: approximation_factor >= 1.0 -> no subsampling at all
        idx = np.arange(n, dtype=np.int64)
    Xs, Ys = X[idx], Y[idx]
    m = len(idx)
    cvals, ccounts = np.unique(Ys, return_counts=True)
    corr = bool(c) and not np.array_equal(X, Y)
    gid = np.searchsorted(vals, Xs)
    cid = np.searchsorted(cvals, Ys)
    keep = counts != 1
    kept = np.flatnonzero(keep)
    keep_pos = keep[gid]
    C = max(1, len(cvals))
    real = _per_stratum(gid, cid, keep_pos, C, kept)
    sp = (np.arange(m, dtype=np.int64) + counts[gid].astype(np.int64)) % max(1, m)
    spoof = _per_stratum(gid, cid[sp], keep_pos, C, kept)
    strata = [[int(counts[k]), a, b] for k, a, b in zip(kept, real, spoof)]
    terms = [int(n), ccounts.tolist(), strata, corr, [r.numerator, r.denominator]]
    return int(q), idx, terms


def summary(ys, xs):
    ys = np.ascontiguousarray(ys, dtype=np.int32)
    xs = np.ascontiguousarray(xs, dtype=np.int32)
    v, cnt = np.unique(xs, return_counts=True)
    return {"len": int(len(xs)),
            "sha_ys": hashlib.sha1(ys.tobytes()).hexdigest()[:16], "sha_xs": hashlib.sha1(xs.tobytes()).hexdigest()[:16],
            "x_counts": [[int(a), int(b)] for a, b in zip(v[:80], cnt[:80])],
            "head": [[int(a), int(b)] for a, b in zip(ys[:4], xs[:4])], "tail": [[int(a), int(b)] for a, b in zip(ys[-4:], xs[-4:])]}


def _hash(i, seed):
    h = (i.astype(np.uint64) * np.uint64(2654435761) + np.uint64(seed * 40503 + 12345)) & np.uint64(0xFFFFFFFF)
    h ^= h >> np.uint64(15)
    h = (h * np.uint64(2246822519)) & np.uint64(0xFFFFFFFF)
    h ^= h >> np.uint64(13)
    return h


def gen_scale(p):
    """deterministic (Y, X) from generator parameters {"n","k","seed","layout","classes"}; pure integer arithmetic"""
    n, k, seed = int(p["n"]), int(p["k"]), int(p["seed"])
    i = np.arange(n, dtype=np.uint64)
    h = _hash(i, seed)
    layout = p.get("layout", "hash")
    if layout == "hash":                     # k values, roughly uniform
        X = (h % np.uint64(k)).astype(np.int32)
    elif layout == "skew":                   # value j with weight ~ 2^-j (small strata below the quota)
        t = ((h >> np.uint64(8)) % np.uint64(1 << 16)).astype(np.int64)
        X = np.zeros(n, dtype=np.int64)
        for j in range(1, 16):
            X += t < ((1 << 16) >> j)
        X = np.minimum(k - 1, X).astype(np.int32)
    elif layout == "late_minority":          # value 1 occurs only from row `start` on (every ~third row), value 0 elsewhere
        start = int(p["start"])
        X = np.where((i >= np.uint64(start)) & (h % np.uint64(3) == np.uint64(0)), 1, 0).astype(np.int32)
    else:
        raise ValueError("layout " + str(layout))
    C = int(p.get("classes", 3))
    h2 = _hash(i, seed + 7)
    noisy = (h2 % np.uint64(4)) == np.uint64(0)
    Y = np.where(noisy, (h2 >> np.uint64(4)) % np.uint64(C), X.astype(np.uint64) % np.uint64(C)).astype(np.int32)
    return Y, X


def frac(r):
    return Fraction(float(np.float32(r)))
