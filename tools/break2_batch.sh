#!/bin/bash
# usage: tools/break2_batch.sh ID...   (confirm + run checks for round-2 seeded changes from /tmp/rt2/<ID>_break; A->C, B->D)
cd "$(dirname "$0")/.."
for id in "$@"; do
  for pair in A:C B:D; do
    v=${pair%%:*}; n=${pair##*:}
    src=/tmp/rt2/${id}_break/.rt_out/$v
    [ -f $src/patch.diff ] || continue
    tools/seeded_confirm.sh $src $id-$n
    [ -d seeded/$id-$n ] && tools/seeded_run.sh $id-$n
  done
done
