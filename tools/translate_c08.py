"""C08 translator: reads the tail rule (and, informationally, the other loop tests) of
`estimate_importances_minibatches` out of outrank/core_ranking.py with `ast`.  Fail closed: anything that is not
recognised raises TranslateError; nothing is guessed.

The tail rule is normalised to `min_used` = the smallest size of a final partial batch that is still processed
(`n > 2**10` and `n >= 1025` both give 1025), so that an equivalent rewrite keeps the check quiet while `>=` for `>`
or another constant does not.
"""
from __future__ import annotations

import ast
import os


class TranslateError(Exception):
    pass


def _const(node):
    """Integer constant expressions only: literals, + - * ** <<, unary minus."""
    if isinstance(node, ast.Constant) and isinstance(node.value, int) and not isinstance(node.value, bool):
        return node.value
    if isinstance(node, ast.UnaryOp) and isinstance(node.op, ast.USub):
        return -_const(node.operand)
    if isinstance(node, ast.BinOp):
        a, b = _const(node.left), _const(node.right)
        if isinstance(node.op, ast.Pow):
            if b < 0 or b > 64:
                raise TranslateError("exponent out of range")
            return a ** b
        if isinstance(node.op, ast.Mult):
            return a * b
        if isinstance(node.op, ast.Add):
            return a + b
        if isinstance(node.op, ast.Sub):
            return a - b
        if isinstance(node.op, ast.LShift):
            if b < 0 or b > 64:
                raise TranslateError("shift out of range")
            return a << b
    raise TranslateError("not an integer constant expression: %s" % ast.dump(node)[:200])


def _is_len_of(node, name):
    return (isinstance(node, ast.Call) and isinstance(node.func, ast.Name) and node.func.id == "len"
            and len(node.args) == 1 and isinstance(node.args[0], ast.Name) and node.args[0].id == name)


def extract(repo):
    path = os.path.join(repo, "outrank", "core_ranking.py")
    try:
        src = open(path, encoding="utf8").read()
        tree = ast.parse(src)
    except Exception as e:
        raise TranslateError("cannot parse %s: %s" % (path, e))
    fn = [n for n in tree.body if isinstance(n, ast.FunctionDef) and n.name == "estimate_importances_minibatches"]
    if len(fn) != 1:
        raise TranslateError("estimate_importances_minibatches not found exactly once")
    fn = fn[0]
    loops = [n for n in fn.body if isinstance(n, ast.For)]
    if len(loops) != 1:
        raise TranslateError("expected exactly one top-level for loop in estimate_importances_minibatches")
    loop = loops[0]
    after = fn.body[fn.body.index(loop) + 1:]
    # names bound to len(line_tmp_storage) after the loop
    aliases = set()
    for st in after:
        if isinstance(st, ast.Assign) and len(st.targets) == 1 and isinstance(st.targets[0], ast.Name) \
                and _is_len_of(st.value, "line_tmp_storage"):
            aliases.add(st.targets[0].id)

    def is_size(node):
        return _is_len_of(node, "line_tmp_storage") or (isinstance(node, ast.Name) and node.id in aliases)

    cands = []
    for st in after:
        if isinstance(st, ast.If) and isinstance(st.test, ast.Compare) and len(st.test.ops) == 1:
            left, op, right = st.test.left, st.test.ops[0], st.test.comparators[0]
            calls = [n for n in ast.walk(st) if isinstance(n, ast.Call) and isinstance(n.func, ast.Name)
                     and n.func.id == "compute_batch_ranking"]
            if not calls:
                continue
            if is_size(left):
                c = _const(right)
                if isinstance(op, ast.Gt):
                    cands.append(("len > %d" % c, c + 1, st.lineno, bool(st.orelse)))
                elif isinstance(op, ast.GtE):
                    cands.append(("len >= %d" % c, c, st.lineno, bool(st.orelse)))
                else:
                    raise TranslateError("tail rule uses unsupported comparison %s" % type(op).__name__)
            elif is_size(right):
                c = _const(left)
                if isinstance(op, ast.Lt):
                    cands.append(("%d < len" % c, c + 1, st.lineno, bool(st.orelse)))
                elif isinstance(op, ast.LtE):
                    cands.append(("%d <= len" % c, c, st.lineno, bool(st.orelse)))
                else:
                    raise TranslateError("tail rule uses unsupported comparison %s" % type(op).__name__)
            else:
                raise TranslateError("a compute_batch_ranking call after the loop is guarded by an unrecognised test")
    if len(cands) != 1:
        raise TranslateError("expected exactly one guarded tail batch after the loop, found %d" % len(cands))
    text, min_used, lineno, has_else = cands[0]
    if has_else:
        raise TranslateError("tail rule has an else branch")
    info = {"tail_text": text, "tail_min_used": min_used, "tail_lineno": lineno}
    # informational: the trigger and the subsampling test inside the loop (not fail-closed)
    for n in ast.walk(loop):
        if isinstance(n, ast.If) and isinstance(n.test, ast.Compare) and len(n.test.ops) == 1:
            try:
                info.setdefault("loop_tests", []).append(ast.unparse(n.test))
            except Exception:
                pass
    return info
