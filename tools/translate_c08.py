"""C08 translator: reads the tail rule of `estimate_importances_minibatches` out of outrank/core_ranking.py with `ast`.
Fail closed: anything that is not recognised raises TranslateError; nothing is guessed.

Where it looks: the whole body of `estimate_importances_minibatches`, including nested function definitions / closures /
generators, and every module-level function it (transitively) calls.  What it looks for: `if` statements whose test is ONE
comparison (> >= < <=) between a *size expression* and an *integer constant expression*, and whose body leads to a call of
`compute_batch_ranking` (directly, or through a nested / module-level function that reaches it).
  size expression     = len(<name>) / len(<name>[...]) / a name bound (anywhere in the searched code) to such a len(...)
  constant expression = integer literals combined by + - * ** << (e.g. 2**10), or a name bound exactly once, at module
                        level or in the searched code, to such an expression
The mini-batch trigger (`len(buffer) >= args.minibatch_size`) is not a candidate: its right-hand side is not a constant.
Exactly one candidate must exist; zero or several -> TranslateError (the caller then holds the constant by the
correspondence only, see tools/props/c08.py).

The rule is normalised to `min_used` = the smallest size of a final partial batch that is still processed
(`n > 2**10` and `n >= 1025` both give 1025), so that an equivalent rewrite keeps the check quiet while `>=` for `>`
or another constant does not.
"""
from __future__ import annotations

import ast
import os

TARGET = "estimate_importances_minibatches"
SCORER = "compute_batch_ranking"


class TranslateError(Exception):
    pass


def _const(node, env, depth=0):
    """Integer constant expressions only: literals, + - * ** <<, unary minus, names bound once to such an expression."""
    if depth > 8:
        raise TranslateError("constant expression too deep")
    if isinstance(node, ast.Constant) and isinstance(node.value, int) and not isinstance(node.value, bool):
        return node.value
    if isinstance(node, ast.Name) and node.id in env:
        return _const(env[node.id], env, depth + 1)
    if isinstance(node, ast.UnaryOp) and isinstance(node.op, ast.USub):
        return -_const(node.operand, env, depth + 1)
    if isinstance(node, ast.BinOp):
        a, b = _const(node.left, env, depth + 1), _const(node.right, env, depth + 1)
        if isinstance(node.op, ast.Pow):
            if b < 0 or b > 64:
                raise TranslateError("exponent out of range")
            return a ** b
        if isinstance(node.op, ast.Mult):
            return a * b
        if isinstance(node.op, ast.Add):
            return a + b
        if isinstance(node.op, ast.Sub):
            return a - b
        if isinstance(node.op, ast.LShift):
            if b < 0 or b > 64:
                raise TranslateError("shift out of range")
            return a << b
    raise TranslateError("not an integer constant expression")


def _is_const(node, env):
    try:
        _const(node, env)
        return True
    except TranslateError:
        return False


def _is_len_call(node):
    if not (isinstance(node, ast.Call) and isinstance(node.func, ast.Name) and node.func.id == "len" and len(node.args) == 1
            and not node.keywords):
        return False
    a = node.args[0]
    if isinstance(a, ast.Subscript):
        a = a.value
    return isinstance(a, ast.Name)


def _called_names(node):
    for n in ast.walk(node):
        if isinstance(n, ast.Call) and isinstance(n.func, ast.Name):
            yield n.func.id


def extract(repo):
    path = os.path.join(repo, "outrank", "core_ranking.py")
    try:
        src = open(path, encoding="utf8").read()
        tree = ast.parse(src)
    except Exception as e:
        raise TranslateError("cannot parse %s: %s" % (path, e))
    module_funcs = {}
    for n in tree.body:
        if isinstance(n, (ast.FunctionDef, ast.AsyncFunctionDef)):
            if n.name in module_funcs:
                raise TranslateError("function %s defined twice" % n.name)
            module_funcs[n.name] = n
    if TARGET not in module_funcs:
        raise TranslateError("%s not found" % TARGET)
    target = module_funcs[TARGET]

    # the searched code: the target (with everything nested in it) + module-level functions it transitively calls
    # (the scorer itself and what lies below it is not part of the streaming loop)
    searched = [target]
    seen = {TARGET}
    todo = [target]
    while todo:
        f = todo.pop()
        for name in _called_names(f):
            if name in module_funcs and name not in seen and name != SCORER:
                seen.add(name)
                searched.append(module_funcs[name])
                todo.append(module_funcs[name])
    nested = {}
    for f in searched:
        for n in ast.walk(f):
            if isinstance(n, (ast.FunctionDef, ast.AsyncFunctionDef)) and n is not f and n.name not in module_funcs:
                nested[n.name] = n
    funcs = dict(module_funcs)
    funcs.update(nested)

    # which functions reach the scorer
    reach_cache = {}

    def reaches(node, stack=()):
        for name in _called_names(node):
            if name == SCORER:
                return True
            if name in funcs and name not in stack:
                if name not in reach_cache:
                    reach_cache[name] = reaches(funcs[name], stack + (name,))
                if reach_cache[name]:
                    return True
        return False

    # name bindings: size aliases (bound to len(...)) and constants (bound exactly once)
    assigns = {}
    for scope in [tree] + searched:
        body_nodes = tree.body if scope is tree else list(ast.walk(scope))
        for st in body_nodes:
            tgt = val = None
            if isinstance(st, ast.Assign) and len(st.targets) == 1 and isinstance(st.targets[0], ast.Name):
                tgt, val = st.targets[0].id, st.value
            elif isinstance(st, ast.AnnAssign) and isinstance(st.target, ast.Name) and st.value is not None:
                tgt, val = st.target.id, st.value
            if tgt is not None:
                assigns.setdefault(tgt, [])
                if not any(v is val for v in assigns[tgt]):
                    assigns[tgt].append(val)
    size_alias = {k for k, vs in assigns.items() if vs and all(_is_len_call(v) for v in vs)}
    env = {k: vs[0] for k, vs in assigns.items() if len(vs) == 1 and not _is_len_call(vs[0])}
    env = {k: v for k, v in env.items() if _is_const(v, env)}

    def is_size(node):
        return _is_len_call(node) or (isinstance(node, ast.Name) and node.id in size_alias)

    cands = []
    for f in searched:
        for st in ast.walk(f):
            if not (isinstance(st, ast.If) and isinstance(st.test, ast.Compare) and len(st.test.ops) == 1):
                continue
            left, op, right = st.test.left, st.test.ops[0], st.test.comparators[0]
            if is_size(left) and _is_const(right, env):
                size_left, c = True, _const(right, env)
            elif is_size(right) and _is_const(left, env):
                size_left, c = False, _const(left, env)
            else:
                continue
            if not isinstance(op, (ast.Gt, ast.GtE, ast.Lt, ast.LtE)):
                continue
            body = ast.Module(body=st.body, type_ignores=[])
            if not reaches(body):
                continue
            if st.orelse:
                raise TranslateError("tail rule at line %d has an else branch" % st.lineno)
            if size_left and isinstance(op, ast.Gt):
                cands.append(("len > %d" % c, c + 1, st.lineno, f.name))
            elif size_left and isinstance(op, ast.GtE):
                cands.append(("len >= %d" % c, c, st.lineno, f.name))
            elif not size_left and isinstance(op, ast.Lt):
                cands.append(("%d < len" % c, c + 1, st.lineno, f.name))
            elif not size_left and isinstance(op, ast.LtE):
                cands.append(("%d <= len" % c, c, st.lineno, f.name))
            else:
                raise TranslateError("tail rule at line %d bounds the remainder from above" % st.lineno)
    uniq = {(c[2], c[3]): c for c in cands}
    if len(uniq) != 1:
        raise TranslateError("expected exactly one size-vs-constant test guarding a %s call in %s and its helpers, found %d%s" % (
            SCORER, TARGET, len(uniq), (" (lines %s)" % sorted(k[0] for k in uniq)) if uniq else ""))
    text, min_used, lineno, where = list(uniq.values())[0]
    info = {"tail_text": text, "tail_min_used": min_used, "tail_lineno": lineno, "tail_in_function": where,
            "searched_functions": [f.name for f in searched] + sorted(nested)}
    # informational: the other single-comparison tests of the searched code (not fail-closed)
    tests = []
    for f in searched:
        for n in ast.walk(f):
            if isinstance(n, ast.If) and isinstance(n.test, ast.Compare) and len(n.test.ops) == 1:
                try:
                    tests.append(ast.unparse(n.test))
                except Exception:
                    pass
    info["loop_tests"] = tests[:12]
    return info
