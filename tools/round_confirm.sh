#!/bin/bash
# usage: tools/round_confirm.sh <round-dir e.g. /tmp/rt5> <suffix for A> <suffix for B> [ID ...]
# confirms the two changes of every listed property (default: all that delivered) in fresh scratch worktrees, 5 at a time
cd "$(dirname "$0")/.."
rt=$1; sa=$2; sb=$3; shift 3
ids="$@"; [ -z "$ids" ] && ids=$(ls $rt)
one() { id=$1
  for pair in A:$sa B:$sb; do v=${pair%%:*}; n=${pair##*:}
    src=$rt/$id/.rt_out/$v; [ -f $src/patch.diff ] || { echo "MISSING $id-$v"; continue; }
    tools/seeded_confirm.sh $src $id-$n
  done; }
export -f one; export rt sa sb
printf "%s\n" $ids | xargs -P 5 -n1 -I{} bash -c 'one {}'
