"""Shared machinery of the outrank verification checks.

One check run (see DESIGN.md section 2):
  1. translators regenerate coq/Gen/*.v from /repo's working tree (per property);
  2. `make Props/<ID>.vo` (full .vo build, under flock + timeout) re-checks every
     proof the property depends on; an audit file prints `Print Assumptions` of
     each property theorem and the output is held against the allowed axioms;
     the sources are grepped for forbidden vernacular;
  3. corpus + seeded cases are run through the real implementation
     (/venv/bin/python, PYTHONPATH=/repo) and through the Coq model
     (`Eval vm_compute` in generated case files), canonicalised and compared;
  4. on a break: failing-input search, replay file, VIOLATION line, exit 1;
  5. evidence/<ID>.json is rewritten.
"""
from __future__ import annotations

import fcntl
import hashlib
import json
import os
import random
import re
import shutil
import subprocess
import sys
import time
from concurrent.futures import ThreadPoolExecutor

import coqparse

VERIF = os.path.dirname(os.path.dirname(os.path.abspath(__file__)))
REPO = os.environ.get("OUTRANK_REPO", "/repo")
COQ = os.path.join(VERIF, "coq")
CASES = os.path.join(COQ, "cases")
CACHE = os.path.join(VERIF, ".cache")
IMPL_PY = "/venv/bin/python"
GUARD = "OUTRANK_VERIF"
COQ_MEM_KB = int(os.environ.get("VERIF_COQ_MEM_KB", str(10 * 1024 * 1024)))   # address-space cap per coqc evaluating cases

STD_REAL_AXIOMS = {
    "ClassicalDedekindReals.sig_forall_dec",
    "ClassicalDedekindReals.sig_not_dec",
    "FunctionalExtensionality.functional_extensionality_dep",
    "Classical_Prop.classic",
}

FORBIDDEN = re.compile(
    r"\b(Admitted|admit|Axiom|Axioms|Parameter|Parameters|Conjecture|Conjectures|Admit Obligations|"
    r"Unset Guard Checking|Unset Positivity Checking|Unset Universe Checking|bypass_check|"
    r"type-in-type|impredicative-set)\b")


class Broken(Exception):
    """A proof obligation / translator / correspondence no longer checks."""

    def __init__(self, obligation, detail=""):
        super().__init__(obligation)
        self.obligation = obligation
        self.detail = detail


# ---------------------------------------------------------------------------
# Coq literals

def zlit(i):
    i = int(i)
    return "(%d)" % i if i < 0 else "%d" % i


def zlist(xs):
    return "[" + "; ".join(zlit(x) for x in xs) + "]"


def zlistlist(xss):
    return "[" + "; ".join(zlist(x) for x in xss) + "]"


def nlist(xs):
    return "[" + "; ".join("%d" % int(x) for x in xs) + "]"


def blit(b):
    return "true" if b else "false"


def strlit(s):
    """Python str -> list N of code points (scope N)."""
    return "[" + "; ".join("%d" % ord(c) for c in s) + "]"


def strlist(ss):
    return "[" + "; ".join(strlit(s) for s in ss) + "]"


def optlit(x, f):
    return "None" if x is None else "(Some %s)" % f(x)


def pairlit(a, b):
    return "(%s, %s)" % (a, b)


def from_codes(codes):
    return "".join(chr(c) for c in codes)


# ---------------------------------------------------------------------------
# Build

def _run(cmd, timeout, cwd=None, env=None, input=None):
    try:
        p = subprocess.run(cmd, cwd=cwd, env=env, input=input, timeout=timeout,
                           stdout=subprocess.PIPE, stderr=subprocess.STDOUT, text=True)
        return p.returncode, p.stdout
    except subprocess.TimeoutExpired as e:
        out = e.stdout or ""
        if isinstance(out, bytes):
            out = out.decode("utf8", "replace")
        return 124, out + "\n[timeout after %ss]" % timeout


def write_coqproject():
    """_CoqProject lists every .v under coq/ except the scratch case files."""
    files = []
    for root, dirs, fs in os.walk(COQ):
        dirs[:] = [d for d in dirs if d not in ("cases",)]
        for f in sorted(fs):
            if f.endswith(".v"):
                files.append(os.path.relpath(os.path.join(root, f), COQ))
    files.sort()
    text = "-Q . Outrank\n" + "\n".join(files) + "\n"
    path = os.path.join(COQ, "_CoqProject")
    old = open(path).read() if os.path.exists(path) else None
    if old != text:
        with open(path, "w") as f:
            f.write(text)
        return True
    return False


class _Lock:
    def __init__(self, name):
        os.makedirs(CACHE, exist_ok=True)
        self.path = os.path.join(CACHE, name)

    def __enter__(self):
        self.f = open(self.path, "w")
        fcntl.flock(self.f, fcntl.LOCK_EX)
        return self

    def __exit__(self, *a):
        fcntl.flock(self.f, fcntl.LOCK_UN)
        self.f.close()


def build(targets, timeout=900, jobs=8):
    """make the given .vo targets (paths relative to coq/).  Returns (ok, log)."""
    with _Lock("build.lock"):
        changed = write_coqproject()
        mk = os.path.join(COQ, "Makefile")
        if changed or not os.path.exists(mk):
            rc, out = _run(["coq_makefile", "-f", "_CoqProject", "-o", "Makefile"], 120, cwd=COQ)
            if rc != 0:
                return False, out
        rc, out = _run(["make", "-j%d" % jobs] + list(targets), timeout, cwd=COQ)
        return rc == 0, out


def dep_closure(targets):
    """All .v files under coq/ that the given .vo targets depend on (transitively), by coqdep."""
    todo = [t[:-1] if t.endswith(".vo") else t for t in targets]
    seen = []
    while todo:
        f = todo.pop()
        if f in seen or not os.path.exists(os.path.join(COQ, f)):
            continue
        seen.append(f)
        rc, out = _run(["coqdep", "-Q", ".", "Outrank", f], 120, cwd=COQ)
        for m in re.finditer(r"(\S+)\.vo\b", out.split(":", 1)[1] if ":" in out else ""):
            d = os.path.normpath(m.group(1) + ".v")
            if not d.startswith(("/", "..")) and d not in seen:
                todo.append(d)
    return sorted(seen)


def grep_forbidden(paths=None):
    """Forbidden vernacular in the given files (relative to coq/), or in the whole development when None."""
    hits = []
    if paths is not None:
        walk = [(COQ, [], list(paths))]
    else:
        walk = os.walk(COQ)
    for root, dirs, fs in walk:
        dirs[:] = [d for d in dirs if d not in ("cases",)]
        for f in fs:
            if not f.endswith(".v"):
                continue
            p = os.path.join(root, f)
            txt = open(p, encoding="utf8").read()
            txt = strip_comments(txt)
            for m in FORBIDDEN.finditer(txt):
                line = txt.count("\n", 0, m.start()) + 1
                hits.append("%s:%d:%s" % (os.path.relpath(p, VERIF), line, m.group(0)))
    return hits


def strip_comments(t):
    out = []
    depth = 0
    i = 0
    n = len(t)
    while i < n:
        if t.startswith("(*", i):
            depth += 1
            i += 2
        elif t.startswith("*)", i) and depth > 0:
            depth -= 1
            i += 2
        else:
            if depth == 0:
                out.append(t[i])
            elif t[i] == "\n":
                out.append("\n")
            i += 1
    return "".join(out)


_AX_HDR = re.compile(r"^(Closed under the global context|Axioms:)\s*$")


def audit(pid, module, theorems, allowed):
    """Print Assumptions for each theorem; returns dict name -> sorted axiom list.
    Raises Broken when a theorem is missing or depends on anything outside `allowed`."""
    os.makedirs(CASES, exist_ok=True)
    name = "audit_%s_%d" % (pid, os.getpid())
    path = os.path.join(CASES, name + ".v")
    lines = ["Require Import %s." % module]
    for t in theorems:
        lines.append('Goal True. idtac "@@THM %s". exact I. Qed.' % t)
        lines.append("Print Assumptions %s." % t)
    lines.append('Goal True. idtac "@@END". exact I. Qed.')
    with open(path, "w") as f:
        f.write("\n".join(lines) + "\n")
    rc, out = _run(["coqc", "-Q", COQ, "Outrank", path], 600, cwd=CASES)
    _cleanup(path)
    if rc != 0:
        raise Broken("audit:%s" % module, out[-3000:])
    res = {}
    cur = None
    for ln in out.splitlines():
        m = re.match(r"^@@THM (\S+)", ln)
        if m:
            cur = m.group(1)
            res[cur] = []
            continue
        if ln.startswith("@@END"):
            cur = None
            continue
        if cur is None:
            continue
        s = ln.strip()
        if not s or _AX_HDR.match(s):
            continue
        m = re.match(r"^([A-Za-z_][\w.']*)\s*(:|$)", s)
        if m and not ln.startswith(" "):
            res[cur].append(m.group(1))
    for t in theorems:
        if t not in res:
            raise Broken("theorem-missing:%s" % t, out[-2000:])
        bad = [a for a in res[t] if a not in allowed]
        if bad:
            raise Broken("axioms:%s" % t, "theorem %s depends on %s" % (t, bad))
    return {k: sorted(v) for k, v in res.items()}


def _cleanup(vpath):
    base = vpath[:-2]
    d = os.path.dirname(vpath)
    b = os.path.basename(base)
    for suf in (".v", ".vo", ".vok", ".vos", ".glob"):
        try:
            os.remove(base + suf)
        except OSError:
            pass
    try:
        os.remove(os.path.join(d, "." + b + ".aux"))
    except OSError:
        pass


def coqchk(run, module, allowed=frozenset(), timeout=1500):
    """Independent re-check of the compiled library of `module` and everything it depends on (thorough tier).
    Records the axiom summary coqchk prints; anything outside `allowed` is a broken obligation."""
    rc, out = _run(["coqchk", "-silent", "-o", "-Q", COQ, "Outrank", module], timeout, cwd=COQ)
    summ = out[out.find("CONTEXT SUMMARY"):] if "CONTEXT SUMMARY" in out else out[-1500:]
    axioms = []
    sec = None
    for ln in summ.splitlines():
        s = ln.strip()
        if s.startswith("* "):
            sec = s
            if s.startswith("* Axioms:") and "<none>" not in s:
                rest = s[len("* Axioms:"):].strip()
                if rest:
                    axioms.append(rest)
            continue
        if sec and sec.startswith("* Axioms:") and s:
            axioms.append(s)
    bad_sections = [l.strip() for l in summ.splitlines()
                    if l.strip().startswith("* ") and not l.strip().startswith(("* Theory", "* Axioms")) and "<none>" not in l]
    short = [a.split(".")[-2] + "." + a.split(".")[-1] if a.count(".") >= 1 else a for a in axioms]
    ok = rc == 0 and not bad_sections and all(any(s.endswith(x.split(".")[-1]) for x in allowed) for s in short)
    run.oblige("coqchk:" + module, ok, "axioms: %s; %s" % (axioms or "<none>", "; ".join(bad_sections)))
    run.trusted.append("coqchk -o on %s: axioms %s" % (module, ", ".join(axioms) if axioms else "<none>"))
    if not ok:
        run.violation("broken-obligation", "coqchk:" + module, found_input=False, extra=summ[-3000:])
    return ok


# ---------------------------------------------------------------------------
# Running the model inside Coq

def coq_eval(pid, header, exprs, shard=400, timeout=900, jobs=12, keep=False):
    """Evaluate each expression with `Eval vm_compute` and return the parsed terms, in order.
    `header` is the text of Require/Import lines.  Raises Broken on failure."""
    os.makedirs(CASES, exist_ok=True)
    shards = [exprs[i:i + shard] for i in range(0, len(exprs), shard)]
    tag = "%s_%d" % (pid, os.getpid())

    def one(k):
        path = os.path.join(CASES, "cases_%s_%d.v" % (tag, k))
        with open(path, "w") as f:
            f.write(header + "\nSet Printing Width 10000000. Set Printing Depth 10000000.\n")
            for e in shards[k]:
                f.write("Eval vm_compute in (%s).\n" % e)
        rc, out = _run(["bash", "-c", "ulimit -s unlimited 2>/dev/null; ulimit -v %d 2>/dev/null; exec coqc -Q '%s' Outrank '%s'" % (COQ_MEM_KB, COQ, path)],
                       timeout, cwd=CASES)
        if not keep:
            _cleanup(path)
        if rc != 0:
            raise Broken("model-eval:%s" % pid, out[-3000:])
        vals = coqparse.parse_evals(out)
        if len(vals) != len(shards[k]):
            raise Broken("model-eval:%s" % pid, "expected %d results got %d\n%s" % (len(shards[k]), len(vals), out[-2000:]))
        return vals

    res = []
    with ThreadPoolExecutor(max_workers=jobs) as ex:
        for vals in ex.map(one, range(len(shards))):
            res.extend(vals)
    return res


# ---------------------------------------------------------------------------
# Running the implementation

def impl_env(seed=0):
    env = dict(os.environ)
    env["PYTHONPATH"] = REPO
    env["PYTHONHASHSEED"] = str(env.get("VERIF_HASHSEED", "0"))
    env["NUMBA_CACHE_DIR"] = os.path.join(CACHE, "numba")
    env[GUARD] = "1"
    env["PYTHONDONTWRITEBYTECODE"] = "1"
    env["OUTRANK_VERIF_DIR"] = VERIF
    env.pop("PYTHONSTARTUP", None)
    return env


def run_impl(script, payload, timeout=1800, env_extra=None):
    """Run tools/impl/<script> under the repo's interpreter with JSON payload on stdin;
    returns the parsed JSON it prints on its last stdout line starting with @@RESULT."""
    os.makedirs(os.path.join(CACHE, "numba"), exist_ok=True)
    env = impl_env()
    if env_extra:
        env.update(env_extra)
    p = os.path.join(VERIF, "tools", "impl", script)
    try:
        r = subprocess.run([IMPL_PY, p], input=json.dumps(payload), env=env, cwd=CACHE,
                           stdout=subprocess.PIPE, stderr=subprocess.PIPE, text=True, timeout=timeout)
    except subprocess.TimeoutExpired:
        raise Broken("impl-run:%s" % script, "timeout")
    for ln in reversed(r.stdout.splitlines()):
        if ln.startswith("@@RESULT "):
            return json.loads(ln[9:])
    raise Broken("impl-run:%s" % script, "rc=%s\nstdout tail:\n%s\nstderr tail:\n%s" % (r.returncode, r.stdout[-1500:], r.stderr[-3000:]))


# ---------------------------------------------------------------------------
# Known findings

def known_findings(pid):
    path = os.path.join(VERIF, "KNOWN_FINDINGS.txt")
    out = []
    if os.path.exists(path):
        for ln in open(path):
            ln = ln.strip()
            if ln.startswith("finding:") and ("property=%s " % pid) in ln + " ":
                out.append(ln)
    return out


# ---------------------------------------------------------------------------
# The driver

class Run:
    def __init__(self, pid, tier, seed):
        self.pid = pid
        self.tier = tier
        self.seed = seed
        self.rng = random.Random("%s/%s/%d" % (pid, tier, seed))
        self.t0 = time.time()
        self.obligations = []       # (name, ok, detail)
        self.violations = []        # dicts
        self.cov = {}
        self.assumptions = []
        self.trusted = []
        self.samples = []
        self.evaluations = 0
        self.distinct = set()
        self.notes = []

    def oblige(self, name, ok, detail=""):
        self.obligations.append((name, bool(ok), detail))
        return ok

    def count_case(self, canon, nontrivial=True):
        self.evaluations += 1
        if nontrivial:
            self.distinct.add(hashlib.sha1(json.dumps(canon, sort_keys=True, default=str).encode()).hexdigest())

    def violation(self, kind, obligation, case=None, impl=None, model=None, clause=None, found_input=True, extra=None):
        self.violations.append(dict(kind=kind, obligation=obligation, case=case, impl_observed=impl,
                                    model_observed=model, clause_violated=clause, found_input=found_input, extra=extra))


def finish(run, level="proof", checker_cmd=None, rule="", explanation=None):
    pid = run.pid
    # runs against a scratch tree (mutation self-tests) must not overwrite the evidence of /repo
    evdir = os.path.join(VERIF, "evidence") if os.path.realpath(REPO) == "/repo" else os.path.join(CACHE, "evidence_scratch")
    os.makedirs(evdir, exist_ok=True)
    exit_code = 0
    lines = []
    known = known_findings(pid)
    real = []
    for v in run.violations:
        key = json.dumps(v.get("case"), sort_keys=True, default=str)
        hit = [k for k in known if ("case=" + key) in k]
        if hit:
            lines.append("KNOWN-FINDING: property=%s %s" % (pid, hit[0]))
        else:
            real.append(v)
    if real:
        exit_code = 1
        os.makedirs(os.path.join(VERIF, "replays", pid), exist_ok=True)
        # one replay per distinct obligation (first failing case each), all listed in the file
        v0 = sorted(real, key=lambda v: (not v["found_input"],))[0]
        blob = dict(property=pid, tier=run.tier, seed=run.seed, kind=v0["kind"], obligation=v0["obligation"],
                    case=v0["case"], impl_observed=v0["impl_observed"], model_observed=v0["model_observed"],
                    clause_violated=v0["clause_violated"], extra=v0.get("extra"),
                    all_violations=[dict(kind=v["kind"], obligation=v["obligation"], clause=v["clause_violated"],
                                         found_input=v["found_input"]) for v in real[:50]],
                    replay_cmd="./check %s --replay {this file}" % pid)
        sha = hashlib.sha1(json.dumps(blob, sort_keys=True, default=str).encode()).hexdigest()[:12]
        rp = os.path.join(VERIF, "replays", pid, "%s.json" % sha)
        with open(rp, "w") as f:
            json.dump(blob, f, indent=1, default=str)
        tail = "" if any(v["found_input"] for v in real) else " no-failing-input-found"
        lines.append("VIOLATION property=%s replay=%s%s" % (pid, rp, tail))
    nob = len(run.obligations)
    ndis = sum(1 for o in run.obligations if o[1])
    cov = dict(
        obligations=max(nob, 1), discharged=ndis,
        checker_cmd=checker_cmd or ("cd /verif && ./check %s --tier %s" % (pid, run.tier)),
        trusted_base=run.trusted,
        evaluations=run.evaluations, distinct_nontrivial=len(run.distinct), rule=rule,
        samples=run.samples[:6],
        obligation_list=[dict(name=o[0], ok=o[1], detail=o[2][:400]) for o in run.obligations],
    )
    cov.update(run.cov)
    if explanation:
        cov["explanation"] = explanation
    ev = dict(property_id=pid, tier=run.tier, seed=run.seed, level=level, coverage=cov,
              assumptions=run.assumptions, wall_s=round(time.time() - run.t0, 2), violations=len(real),
              notes=run.notes)
    with open(os.path.join(evdir, "%s.json" % pid), "w") as f:
        json.dump(ev, f, indent=1, default=str)
    for ln in lines:
        print(ln)
    print("%s tier=%s seed=%d obligations=%d/%d evaluations=%d distinct=%d wall=%.1fs -> %s" % (
        pid, run.tier, run.seed, ndis, nob, run.evaluations, len(run.distinct), time.time() - run.t0,
        "FAIL" if exit_code else "ok"))
    sys.stdout.flush()
    return exit_code


def standard_proof_phase(run, targets, module, theorems, allowed=frozenset()):
    """Steps 2 of a run.  Records obligations; returns True when every proof obligation holds."""
    ok, log = build(targets)
    run.oblige("build:" + ",".join(targets), ok, "" if ok else log[-1500:])
    if not ok:
        run.violation("broken-obligation", "build:" + ",".join(targets), found_input=False, extra=log[-3000:])
        return False
    files = dep_closure(targets)
    hits = grep_forbidden(files)
    run.cov["proof_files"] = files
    run.oblige("no-forbidden-vernacular in %d files" % len(files), bool(files) and not hits, "; ".join(hits[:10]))
    if hits:
        run.violation("broken-obligation", "forbidden-vernacular", found_input=False, extra=hits[:20])
        return False
    try:
        ax = audit(run.pid, module, theorems, allowed)
    except Broken as b:
        run.oblige(b.obligation, False, b.detail)
        run.violation("broken-obligation", b.obligation, found_input=False, extra=b.detail[-3000:])
        return False
    for t in theorems:
        run.oblige("theorem:" + t, True, "axioms: " + (", ".join(ax[t]) or "closed under the global context"))
    used = sorted({a for t in theorems for a in ax[t]})
    run.trusted.append("Coq 8.16.1 kernel (coqc, full .vo build, vm_compute; no native_compute)")
    run.trusted.append("Print Assumptions over %d theorems of %s: %s" % (
        len(theorems), module, ", ".join(used) if used else "closed under the global context"))
    run.cov["axioms_per_theorem"] = ax
    return True
