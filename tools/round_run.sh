#!/bin/bash
# usage: tools/round_run.sh <suffix> [<suffix> ...]   — runs the checks against every seeded/<ID>-<suffix>; Gen-regenerating checks in one lane
cd "$(dirname "$0")/.."
lane() { for n in "$@"; do [ -d seeded/$n ] && tools/seeded_run.sh $n > .cache/full_$n.log 2>&1; done; }
mk() { out=""; for p in "$@"; do for s in $SUF; do out="$out $p-$s"; done; done; echo $out; }
SUF="$@"
lane $(mk C03 C05 C06 C12) & lane $(mk C01 C02 C04 C07 C08) & lane $(mk C09 C10 C11 C13 C14) & lane $(mk C15 C16 C17 C18 C19 C20) &
wait
for s in $SUF; do for n in seeded/*-$s; do echo "$(basename $n): $(grep -c '^VIOLATION' $n/result.txt) nfi=$(grep -c no-failing $n/result.txt) | $(tail -1 $n/result.txt | cut -c1-100)"; done; done
